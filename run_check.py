#!/venv/bin/python
"""Entry point:  run_check.py Cnn [--tier quick|thorough] [--replay file] [--workers n]

exit 0  property held on everything explored (KNOWN-FINDING lines allowed)
exit 1  VIOLATION property=<id> replay=<path> printed for something not in known_findings.json
exit 2  harness error (never a verdict)
"""
import argparse
import os
import sys

HERE = os.path.dirname(os.path.abspath(__file__))


def main():
    ap = argparse.ArgumentParser()
    ap.add_argument('prop')
    ap.add_argument('--tier', default=os.environ.get('VERIF_TIER', 'quick'),
                    choices=['quick', 'thorough'])
    ap.add_argument('--replay')
    ap.add_argument('--workers', type=int)
    a = ap.parse_args()
    if os.environ.get('PYTHONHASHSEED') != '0':
        env = dict(os.environ, PYTHONHASHSEED='0', PYTHONDONTWRITEBYTECODE='1')
        os.execve(sys.executable, [sys.executable] + sys.argv, env)
    sys.path.insert(0, HERE)
    os.chdir(HERE)
    try:
        seed = int(os.environ.get('VERIF_SEED', '0'))
    except ValueError:
        seed = 0
    try:
        import bctmc
        bctmc.import_bct()
        from bctmc import runner
        rc = runner.run_check(a.prop.upper(), a.tier, seed, a.workers, a.replay)
    except SystemExit:
        raise
    except BaseException:
        import traceback
        traceback.print_exc()
        rc = 2
    sys.stdout.flush()
    sys.exit(rc)


if __name__ == '__main__':
    main()
