#!/usr/bin/env python3
"""Prints a markdown table of what the last run of every check covered (from evidence/*.json)."""
import glob, json
print('| check | tier | evaluations | non-trivial | states | transitions | executions on the implementation | known-finding cases | exhaustive | wall s |')
print('|---|---|---|---|---|---|---|---|---|---|')
for f in sorted(glob.glob('/verif/evidence/C*.json')):
    e = json.load(open(f)); c = e['coverage']
    print('| %s | %s | %d | %d | %s | %s | %s | %d | %s | %.0f |' % (
        e['property_id'], e['tier'], c['evaluations'], c['distinct_nontrivial'], c.get('states', '-'),
        c.get('transitions', '-'), c.get('traces_validated_against_impl', '-'),
        sum(c.get('known_findings_hit', {}).values()), c['exhaustive'], e['wall_s']))
