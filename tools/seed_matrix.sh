#!/bin/sh
# usage: seed_matrix.sh  - run every seeded change against the check of its property (scratch worktree), print detection table
cd /verif
for d in seeded/*/; do
  name=$(basename $d); id=${name%%-*}
  out=$(TAIL=400 tools/try_seed.sh /verif/${d}patch.diff $id ${1:-quick} 2>&1)
  nv=$(echo "$out" | grep -c '^VIOLATION')
  first=$(echo "$out" | grep -A1 '^VIOLATION' | grep -v '^VIOLATION\|^--' | head -1 | sed 's/: [0-9]* case.*//' | cut -c1-90)
  echo "$name check=$id violations_lines=$nv first=[$first]"
done
