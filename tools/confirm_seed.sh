#!/bin/sh
# usage: confirm_seed.sh <seedwork-dir> <seed-name>
# Independently confirms a sub-agent's seeded change on a fresh scratch worktree of /repo HEAD:
# demo exits 0 unchanged, 1 with the patch, all 61 stable tests still pass with the patch.
# On success copies patch.diff, demo.py, meta.json (+ confirmation record) to /verif/seeded/<name>/.
src=$1; name=$2
wt=$(mktemp -d /tmp/seedconfirm.XXXXXX)
git -C /repo worktree add --detach $wt ${BASE:-HEAD} >/dev/null 2>&1 || exit 3
cleanup() { git -C /repo worktree remove --force $wt; }
cd $wt
/venv/bin/python $src/out/demo.py >/dev/null 2>&1; d0=$?
if ! git apply $src/out/patch.diff; then echo "$name: PATCH DOES NOT APPLY to current /repo HEAD"; cleanup; exit 3; fi
/venv/bin/python $src/out/demo.py >/dev/null 2>&1; d1=$?
/venv/bin/python -m pytest -q -p no:cacheprovider --timeout=900 --continue-on-collection-errors -n 8 --junitxml=$wt/junit.xml >/dev/null 2>&1
res=$(/venv/bin/python - $wt/junit.xml <<'PY'
import sys, json, xml.etree.ElementTree as ET
stable = set(json.load(open('/root/.vp/BASELINE.json'))['stable_pass'])
ok = set()
for tc in ET.parse(sys.argv[1]).getroot().iter('testcase'):
    name = tc.get('classname') + '::' + tc.get('name')
    bad = [c.tag for c in tc if c.tag in ('failure', 'error')]
    skipped = [c for c in tc if c.tag == 'skipped']
    if not bad and not (skipped and 'xfail' not in (skipped[0].get('type') or '')):
        ok.add(name)
    elif not bad and skipped:
        pass
missing = sorted(stable - ok)
print(json.dumps({'stable_passed': len(stable & ok), 'stable_missing': missing}))
PY
)
echo "$name: demo_unchanged_exit=$d0 demo_changed_exit=$d1 tests=$res head=$(git -C $wt log --format=%h -1)"
case "$res" in *'"stable_missing": []'*) tests_ok=1;; *) tests_ok=0;; esac
if [ $d0 -eq 0 ] && [ $d1 -eq 1 ] && [ $tests_ok -eq 1 ]; then
  mkdir -p /verif/seeded/$name
  cp $src/out/patch.diff $src/out/demo.py /verif/seeded/$name/
  /venv/bin/python - $src/out/meta.json /verif/seeded/$name/meta.json "$d0" "$d1" "$res" "$(git -C $wt log --format=%h -1)" <<'PY'
import sys, json
m = json.load(open(sys.argv[1]))
m['confirmed'] = {'by': 'tools/confirm_seed.sh on a fresh scratch worktree of /repo', 'repo_head': sys.argv[6],
                  'demo_unchanged_exit': int(sys.argv[3]), 'demo_changed_exit': int(sys.argv[4]),
                  'pytest': 'pytest -n 8 (full suite); ' + sys.argv[5]}
json.dump(m, open(sys.argv[2], 'w'), indent=1)
PY
  echo "$name: CONFIRMED -> /verif/seeded/$name"
else
  echo "$name: NOT CONFIRMED"
fi
cleanup
