#!/bin/sh
# compact runner: rc.sh Cnn [tier] -> one short line per violation group + summary
cd /verif && /venv/bin/python run_check.py $1 --tier ${2:-quick} 2>&1 | grep -v "^WARNING conda\|^VIOLATION" | sed -E 's/; first: case=.{0,160}.* observed=(.{0,90}).* expected=(.{0,60}).*/ | obs=\1 exp=\2/' | cut -c1-330
