#!/bin/sh
# usage: try_seed.sh <patch.diff> <Cnn> [tier]  - run a check against a scratch worktree of /repo HEAD + patch
# (never touches /repo's working tree; the worktree is removed afterwards).  If the patch no longer applies to HEAD
# (a later fix: commit rewrote its context) it is applied to the commit it was confirmed on (meta.json next to it).
patch=$1; id=$2; tier=${3:-quick}
wt=$(mktemp -d /tmp/seedtest.XXXXXX)
git -C /repo worktree add --detach $wt HEAD >/dev/null 2>&1 || exit 3
if ! git -C $wt apply $patch 2>/dev/null; then
  base=$(/venv/bin/python -c "import json,sys,os; print(json.load(open(os.path.join(os.path.dirname(sys.argv[1]),'meta.json'))).get('confirmed',{}).get('repo_head',''))" $patch 2>/dev/null)
  git -C /repo worktree remove --force $wt
  if [ -z "$base" ]; then echo "PATCH DOES NOT APPLY"; exit 3; fi
  wt=$(mktemp -d /tmp/seedtest.XXXXXX)
  git -C /repo worktree add --detach $wt $base >/dev/null 2>&1 || exit 3
  if ! git -C $wt apply $patch; then echo "PATCH DOES NOT APPLY (HEAD nor $base)"; git -C /repo worktree remove --force $wt; exit 3; fi
  echo "(patch applied to its confirmation base $base: it no longer applies to HEAD)"
fi
cd /verif && BCT_REPO=$wt /venv/bin/python run_check.py $id --tier $tier 2>&1 | grep -v "^WARNING conda" | cut -c1-400 | tail -${TAIL:-8}
rc=$?
git -C /repo worktree remove --force $wt
