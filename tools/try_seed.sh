#!/bin/sh
# usage: try_seed.sh <patch.diff> <Cnn> [tier]  - run a check against a scratch worktree of /repo HEAD + patch
# (never touches /repo's working tree; the worktree is removed afterwards)
patch=$1; id=$2; tier=${3:-quick}
wt=$(mktemp -d /tmp/seedtest.XXXXXX)
git -C /repo worktree add --detach $wt HEAD >/dev/null 2>&1 || exit 3
if ! git -C $wt apply $patch; then echo "PATCH DOES NOT APPLY"; git -C /repo worktree remove --force $wt; exit 3; fi
cd /verif && BCT_REPO=$wt /venv/bin/python run_check.py $id --tier $tier 2>&1 | grep -v "^WARNING conda" | cut -c1-400 | tail -${TAIL:-8}
rc=$?
git -C /repo worktree remove --force $wt
