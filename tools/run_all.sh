#!/bin/sh
# usage: run_all.sh [tier] [seed]  - every check once, one summary line each
tier=${1:-quick}; seed=${2:-0}
cd /verif
for i in 01 02 03 04 05 06 07 08 09 10 11 12 13 14 15 16 17 18 19 20; do
  VERIF_SEED=$seed /venv/bin/python run_check.py C$i --tier $tier > /tmp/run_all_C$i.log 2>&1; rc=$?
  echo "C$i rc=$rc $(grep -c '^KNOWN-FINDING' /tmp/run_all_C$i.log) known | $(tail -1 /tmp/run_all_C$i.log | cut -c1-200)"
done
