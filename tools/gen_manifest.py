#!/usr/bin/env python3
"""Regenerates /verif/MANIFEST.json from the table below (kept valid at all times)."""
import json
import os
import sys

HERE = os.path.dirname(os.path.dirname(os.path.abspath(__file__)))

A = 'rngmc: explicit-state exploration of all generator answers on the real code'
B = 'smallscope: bounded-exhaustive input enumeration against a reference model'
C = 'histories: BFS over operation sequences against a model of the global generator'

# id -> (engine, technique, level text, level note, design ref)
CHECKS = {
    'C16': ('smallscope', 'bounded-exhaustive enumeration of all labelled graphs up to n nodes vs BFS reference model',
            'Every labelled undirected graph with n<=6 (quick) / n<=7 (thorough) nodes, in binary, weighted and '
            'non-zero-diagonal variants, and every asymmetric 3-node 0/1 matrix, is run through get_components / '
            'number_of_components / distance_bin / breadthdist / reachdist and compared with an independent BFS. '
            'Complete for that scope; says nothing about n>7.',
            'trusted: BFS reference in bctmc/smallscope.py, numpy; float64 inputs only', 'DESIGN.md section 4 C16'),
}

ALL = ['C%02d' % i for i in range(1, 21)]
NOT_YET = 'check not built yet in this round (planned, see DESIGN.md section 4); no claim is made'


def main():
    checks = []
    for pid in ALL:
        if pid not in CHECKS:
            continue
        engine, technique, text, note, ref = CHECKS[pid]
        checks.append({
            'property_id': pid,
            'quick_cmd': '/venv/bin/python run_check.py %s --tier quick' % pid,
            'thorough_cmd': '/venv/bin/python run_check.py %s --tier thorough' % pid,
            'evidence_file': '/verif/evidence/%s.json' % pid,
            'replay_cmd_template': '/venv/bin/python run_check.py %s --replay {path}' % pid,
            'engine': engine,
            'level_claimed': {'category': 'model_checking', 'text': text, 'design_ref': ref},
            'level_note': note,
            'technique': technique,
        })
    man = {
        'version': 1,
        'setup_cmd': '/venv/bin/python tools/setup_check.py',
        'hooks': {
            'guard': 'BCTPY_VERIF',
            'enable': 'none needed: the checks drive the unmodified library through its public seed= / argument seams; '
                      'the guard name is reserved and no source hook exists',
            'baseline_off_cmd': 'cd /repo && /venv/bin/python -m pytest -ra -q -p no:cacheprovider --timeout=900 '
                                '--continue-on-collection-errors',
            'source_commits': [],
            'add_only': True,
        },
        'engines': [
            {'name': 'rngmc', 'path': 'bctmc/explorer.py', 'kind_free_text': A,
             'serves_properties': [p for p in ALL if p in CHECKS and CHECKS[p][0] == 'rngmc']},
            {'name': 'smallscope', 'path': 'bctmc/smallscope.py', 'kind_free_text': B,
             'serves_properties': [p for p in ALL if p in CHECKS and CHECKS[p][0] == 'smallscope']},
            {'name': 'histories', 'path': 'bctmc/histories.py', 'kind_free_text': C,
             'serves_properties': [p for p in ALL if p in CHECKS and CHECKS[p][0] == 'histories']},
        ],
        'checks': checks,
        'notes': 'All checks: cd /verif && /venv/bin/python run_check.py <id> --tier quick|thorough. '
                 'The library is imported from /repo\'s working tree on every run; nothing is cached.',
        'not_applicable': [{'property_id': p, 'reason': NOT_YET} for p in ALL if p not in CHECKS],
    }
    with open(os.path.join(HERE, 'MANIFEST.json'), 'w') as f:
        json.dump(man, f, indent=1)
        f.write('\n')
    print('MANIFEST.json: %d checks, %d not claimed' % (len(checks), len(man['not_applicable'])))


if __name__ == '__main__':
    main()
