#!/usr/bin/env python3
"""Regenerates /verif/MANIFEST.json from the table below (kept valid at all times)."""
import json
import os
import sys

HERE = os.path.dirname(os.path.dirname(os.path.abspath(__file__)))

A = 'rngmc: explicit-state exploration of all generator answers on the real code'
B = 'smallscope: bounded-exhaustive input enumeration against a reference model'
C = 'histories: BFS over operation sequences against a model of the global generator'

# id -> (engine, technique, level text, level note, design ref)
CHECKS = {
    'C03': ('smallscope', 'bounded-exhaustive enumeration of all small (di)graphs vs exact-hop min-plus / BFS reference model',
            'Every labelled digraph n<=4 / graph n<=5 (binary), lengths {1,2,3} on 3-node digraphs and 4-node graphs, dyadic '
            'weights for the inv/log transforms (thorough: lengths {1,2} on all 531441 4-node digraphs, 5-node graphs, binary n=6) '
            'through distance_bin/_wei/_wei_floyd, breadthdist, reachdist, charpath, efficiency_bin/_wei, rout_efficiency; '
            'distances, reachability flags, hop counts (must be the hop count of some minimum-length path) and means compared '
            'with an independent dynamic programme. Complete for that scope only.',
            'trusted: bctmc/oracles.py (min-plus over exact hop counts, BFS; cross-checked against each other at run time), numpy', 'DESIGN.md section 4 C03'),
    'C15': ('smallscope', 'bounded-exhaustive enumeration of graphs x all k against subset-enumeration oracle',
            'All graphs n<=5 (6 thorough) x k=0..n, all digraphs n<=4 x k=0..2n-1, 4-node weighted graphs x s on a 0.25 grid: '
            'kcore_bu/kcore_bd/score_wu matrix, size, peel order/levels, kcoreness_centrality_bu/_bd coreness and core sizes '
            'compared with the union of all node subsets that meet the bound internally (all 2^n subsets enumerated).',
            'trusted: subset-enumeration oracle in checks/c15.py; float64 inputs', 'DESIGN.md section 4 C15'),
    'C17': ('smallscope', 'bounded-exhaustive enumeration of small matrices x full dyadic p grid x thresholds x copy flag',
            'All symmetric {0,1,2,3} 4-node and all {0,1,2,3} 3-node / binary 4-node matrices, with and without diagonal, x p=j/32 '
            '(every .5 rounding boundary) x copy flag for threshold_proportional (count by exact rational round-half-up, strongest kept, '
            'diagonal, symmetry, aliasing); all {-2..2} matrices x every threshold for threshold_absolute, binarize, normalize, invert, '
            'weight_conversion against elementwise definitions.',
            'trusted: exact Fraction arithmetic for the expected count; float64 inputs; p restricted to values whose product is exact or far from .5', 'DESIGN.md section 4 C17'),
    'C16': ('smallscope', 'bounded-exhaustive enumeration of all labelled graphs up to n nodes vs BFS reference model',
            'Every labelled undirected graph with n<=6 (quick) / n<=7 (thorough) nodes, in binary, weighted and '
            'non-zero-diagonal variants, and every asymmetric 3-node 0/1 matrix, is run through get_components / '
            'number_of_components / distance_bin / breadthdist / reachdist and compared with an independent BFS. '
            'Complete for that scope; says nothing about n>7.',
            'trusted: BFS reference in bctmc/smallscope.py, numpy; float64 inputs only', 'DESIGN.md section 4 C16'),
}

ALL = ['C%02d' % i for i in range(1, 21)]
NOT_YET = 'check not built yet in this round (planned, see DESIGN.md section 4); no claim is made'


def main():
    checks = []
    for pid in ALL:
        if pid not in CHECKS:
            continue
        engine, technique, text, note, ref = CHECKS[pid]
        checks.append({
            'property_id': pid,
            'quick_cmd': '/venv/bin/python run_check.py %s --tier quick' % pid,
            'thorough_cmd': '/venv/bin/python run_check.py %s --tier thorough' % pid,
            'evidence_file': '/verif/evidence/%s.json' % pid,
            'replay_cmd_template': '/venv/bin/python run_check.py %s --replay {path}' % pid,
            'engine': engine,
            'level_claimed': {'category': 'model_checking', 'text': text, 'design_ref': ref},
            'level_note': note,
            'technique': technique,
        })
    man = {
        'version': 1,
        'setup_cmd': '/venv/bin/python tools/setup_check.py',
        'hooks': {
            'guard': 'BCTPY_VERIF',
            'enable': 'none needed: the checks drive the unmodified library through its public seed= / argument seams; '
                      'the guard name is reserved and no source hook exists',
            'baseline_off_cmd': 'cd /repo && /venv/bin/python -m pytest -ra -q -p no:cacheprovider --timeout=900 '
                                '--continue-on-collection-errors',
            'source_commits': [],
            'add_only': True,
        },
        'engines': [
            {'name': 'rngmc', 'path': 'bctmc/explorer.py', 'kind_free_text': A,
             'serves_properties': [p for p in ALL if p in CHECKS and CHECKS[p][0] == 'rngmc']},
            {'name': 'smallscope', 'path': 'bctmc/smallscope.py', 'kind_free_text': B,
             'serves_properties': [p for p in ALL if p in CHECKS and CHECKS[p][0] == 'smallscope']},
            {'name': 'histories', 'path': 'bctmc/histories.py', 'kind_free_text': C,
             'serves_properties': [p for p in ALL if p in CHECKS and CHECKS[p][0] == 'histories']},
        ],
        'checks': checks,
        'notes': 'All checks: cd /verif && /venv/bin/python run_check.py <id> --tier quick|thorough. '
                 'The library is imported from /repo\'s working tree on every run; nothing is cached.',
        'not_applicable': [{'property_id': p, 'reason': NOT_YET} for p in ALL if p not in CHECKS],
    }
    with open(os.path.join(HERE, 'MANIFEST.json'), 'w') as f:
        json.dump(man, f, indent=1)
        f.write('\n')
    print('MANIFEST.json: %d checks, %d not claimed' % (len(checks), len(man['not_applicable'])))


if __name__ == '__main__':
    main()
