#!/usr/bin/env python3
"""Regenerates /verif/MANIFEST.json from the table below (kept valid at all times)."""
import json
import os
import sys

HERE = os.path.dirname(os.path.dirname(os.path.abspath(__file__)))

A = 'rngmc: explicit-state exploration of all generator answers on the real code'
B = 'smallscope: bounded-exhaustive input enumeration against a reference model'
C = 'histories: BFS over operation sequences against a model of the global generator'

# id -> (engine, technique, level text, level note, design ref)
CHECKS = {
    'C04': ('smallscope', 'bounded-exhaustive enumeration of all labelled inputs x all n! renumberings (table closed under the permutation group by lookup)',
            'About 75 deterministic measures (degrees, strengths, density, clustering, transitivity, distances, efficiency, betweenness, cores, rich '
            'club, assortativity, PageRank, eigenvector/subgraph centrality, matching, topological overlap, edge overlap, flow, walks, components, '
            'participation/z-score/diversity with every set partition): evaluated on every labelled 4-node input of their class and compared on ALL '
            '(graph, renumbering) pairs: node vectors permute, pair matrices permute on both axes, scalars and distributions are unchanged.',
            'documented order-dependent choices (Pmat/hops/B under ties) and heuristics are excluded; spectral/random-walk measures compared on connected inputs', 'DESIGN.md section 4 C04'),
    'C13': ('smallscope', 'bounded-exhaustive enumeration over programs x inputs: every public callable x argument alphabet by parameter role x every flag value, byte snapshots',
            'All 152 public callables of the bct namespace (discovered at run time; three IO/plot functions excluded and listed) are called on ten '
            'connection-matrix variants (binary/weighted/signed, symmetric/asymmetric, zero/non-zero diagonal), three community-vector labellings and '
            'every boolean/enum flag value; every array argument is byte-identical (data, dtype, shape, strides, writeable) after the call, whether it '
            'returned or raised. Randomised routines use an integer seed.',
            'inputs are one fixed alphabet per parameter role, not all matrices; copy=False is exempt by definition (C17 checks it)', 'DESIGN.md section 4 C13'),
    'C14': ('smallscope', 'bounded-exhaustive enumeration of all set partitions x relabelling family x all small networks',
            'participation_coef (3 modes), participation_coef_sign, module_degree_zscore (4 flags), diversity_coef_sign, gateway_coef_sign, '
            'modularity_und/_dir(kci), modularity_und_sign on every 4-node network of their class x all 15 partitions x ~12 injective relabellings; '
            'partition_distance on all 2704+225 ordered pairs of partitions (symmetry, VIn in [0,1], VI=0 and MI=1 iff equal, label invariance); '
            'agreement/agreement_weighted on all pairs and a third of the triples; ci2ls/ls2ci round trips.',
            'relabelling family is finite (bctmc.smallscope.relabellings); the single-block/single-block pair has undefined MI and is counted separately', 'DESIGN.md section 4 C14'),
    'C18': ('smallscope', 'bounded-exhaustive enumeration of connected graphs / all graphs n<=6 with residuals of the defining equations',
            'mean_first_passage_time (first-passage recurrence off the diagonal), diffusion_efficiency (elementwise inverse and mean), '
            'pagerank_centrality (positive, sums to one, fixed-point equation; d in {0.5,0.85}, uniform and non-uniform falff) on every connected '
            'graph over weights {1,2},{0.5,1} n<=4, binary n=5, every strongly connected digraph n<=4; subgraph_centrality = diag expm(A) and '
            'eigenvector_centrality_und (non-negative unit eigenvector of lambda_max) on every undirected graph n<=6 and named symmetric graphs; '
            'findwalks slots equal matrix powers on all graphs n<=5 / digraphs n<=4.',
            'trusted: numpy/scipy linear algebra (expm, eigvalsh, matrix_power) as reference; tolerance 1e-8', 'DESIGN.md section 4 C18'),
    'C05': ('histories', 'explicit-state BFS over operation histories on the real library against a mirror model of the global generator + scripted-generator path exploration with global-state snapshots',
            'For every public callable with a seed parameter (found by introspection; 38 functions, 1-2 argument tuples): all operation sequences up to '
            'depth 4 (5 thorough) over {seed global 0/1, global draw, call(seed=int 0/1), call(seed=RandomState 0/1), unseeded call}, states deduplicated '
            'by the global generator state: seeded calls return one result per seed whatever the history and seed kind and leave numpy\'s and Python\'s '
            'global generators bit-identical; an unseeded call equals the same call on a mirror of the global generator and advances it identically. '
            'In addition the first 300 (3000) generator-answer paths of each function are run with a global-state snapshot around every execution.',
            'trusted: mirror RandomState as model of the global stream; argument tuples in bctmc/seedtable.py; engine A part bounded by an execution cap', 'DESIGN.md sections 3, 4 C05'),
    'C19': ('rngmc', 'exploration of EVERY subject relabelling (full permutation menu / all sign patterns) per configuration + bounded-exhaustive invariance checks',
            'nbs_bct on all 125 (216 paired) profile assignments of 3-node designs x group sizes x threshold x tail (and a 4-node set): for every '
            'relabelling the generator can answer, adj marks exactly the suprathreshold connections labelled by component (t statistics and components '
            're-derived), one p-value per component equal to the fraction of returned null values >= its size, and every null value equals the largest '
            'component size recomputed for the relabelling that was scripted; observed components invariant under group swap+tail and subject reordering.',
            'trusted: t statistics written from their definitions in checks/c19.py; paired sign flips represented by 0.25/0.75', 'DESIGN.md section 4 C19'),
    'C02': ('rngmc', 'explicit-state exploration of ALL node visiting orders at every sweep (n! menu, states merged at sweep starts) + bounded-exhaustive enumeration for the deterministic routines',
            'community_louvain (4 objectives), modularity_louvain_und/_dir/_und_sign, modularity_finetune_und/_dir/_und_sign, '
            'modularity_probtune_und_sign on small graphs x gamma {1,1.25} x qtypes x initial partitions x hierarchy: for every reachable outcome the '
            'labels are exactly 1..k and the returned q (every level) equals the modularity recomputed from its definition; modularity_und/_dir/'
            '_und_sign on every graph n<=4 / digraph n<=3 x every set partition as kci.',
            'trusted: double-loop reference modularity in bctmc/louvain.py; state keys as C01; known findings for modularity_louvain_dir are listed in known_findings.json', 'DESIGN.md section 4 C02'),
    'C07': ('rngmc', 'explicit-state exploration of ALL visiting orders, two stages (outputs fed back as starts), reference modularity + bookkeeping state invariant',
            'Same explorations as C02 for the seven deterministic-gain optimisers: Qref(returned) >= Qref(start) - 1e-10 for every reachable outcome, '
            'hierarchical levels strictly increasing in true modularity, every distinct first-stage output fed back as ci and explored again; at '
            'every sweep-start state the incremental node-to-module sums equal the sums recomputed from the labels.',
            'trusted: as C02; state invariants depend on local names (skipped and counted if renamed)', 'DESIGN.md section 4 C07'),
    'C20': ('rngmc', 'exploration of ALL random-generator answers (every permutation / threshold outcome / repair choice) per parameter tuple',
            'For every parameter tuple of a small grid (makerandCIJ_und n<=4, makerandCIJ_dir n=3, makeringlatticeCIJ n=4..6, makeevenCIJ n=4, '
            'makefractalCIJ 2 levels: all 2^16 threshold outcomes, maketoeplitzCIJ n=3: all 2^9 outcomes per draw up to two draws, '
            'makerandCIJdegreesfixed: all realisable degree-sequence pairs on 3-4 nodes) every generator answer is executed and the output judged: '
            'shape, 0/1 entries, empty diagonal, exactly K (pairs, symmetric for _und), reported count, degree sequences, ring bands filled nearest first.',
            'trusted: threshold representatives 0.0/0.999999 for compare-only draws; menus bounded by 8!; makerandCIJdegreesfixed give-ups (BCTParamError) are documented and not judged', 'DESIGN.md section 4 C20'),
    'C06': ('rngmc', 'explicit-state exploration of ALL generator answers (node-quadruple picks incl. rejected ones, weight-dealing orders) on signed 4-node inputs',
            'randmio_und_signed / randmio_dir_signed (1-2 iterations, 256-way pick menu) and null_model_und_sign / null_model_dir_sign '
            '(bin_swaps 0 / one iteration x wei_freq 0, 1, 0.5) on symmetric and directed sign patterns with distinct magnitudes: every reachable '
            'output keeps per-node positive/negative in/out degrees and both weight multisets, empty diagonal, symmetry, and the returned '
            'correlations equal np.corrcoef of input and output strength sequences; per-state invariant inside the rewirers.',
            'trusted: state keys as C01; distinct integer magnitudes; n=4 only (n=5 menus of 625 in thorough)', 'DESIGN.md section 4 C06'),
    'C01': ('rngmc', 'explicit-state exploration of ALL random-generator answer sequences on the real rewiring code (state-hash pruning), oracle on every execution + state invariants',
            'For ~4900 (quick) configurations routine x input graph x budget, every sequence of generator answers is executed on the real function '
            'through a scripted RandomState (seed= seam); retry loops are merged by a live-variable state key. Every completed execution is judged '
            '(in/out degrees, weight multiset, diagonal, symmetry, out-strength, zero-rewiring identity, latticisation re-indexing) and every newly '
            'reached state checks that the edge-slot arrays name exactly the present connections and degrees are unchanged. Exhaustive for those '
            'inputs and budgets (<=2-3 consecutive iterations, n<=6).',
            'trusted: CPython 3.12 frame/bytecode introspection for state keys (validated against stateless enumeration in selftest/); continuous draws represented by threshold-separating points', 'DESIGN.md sections 1, 4 C01'),
    'C11': ('rngmc', 'explicit-state exploration of ALL generator answers on bridge-rich inputs + bounded-exhaustive rejection inputs',
            'Every answer sequence of randmio_und_connected / randmio_dir_connected / the four latticisers / randomize_graph_partial_und on a '
            'catalogue of connected graphs where most swaps would disconnect (trees+chords, rings, bridges, strongly connected rings with chords): '
            'output (and the working matrix at every state) stays (strongly) connected, lattice cost never increases for default and symmetric '
            'caller D, no connection created in a masked cell; every disconnected graph n<=5 and asymmetric 3-node matrix is rejected.',
            'trusted: BFS / Warshall closure in bctmc/smallscope.py; state keys as C01; symmetric D and masks only', 'DESIGN.md section 4 C11'),
    'C08': ('smallscope', 'bounded-exhaustive enumeration of small (di)graphs vs enumeration of all minimum-length simple paths',
            'All binary digraphs n<=4 / graphs n<=5 and lengths {1,2},{1,2,3} on 3-4 nodes (thorough: lengths {1,2} on all 4-node digraphs, '
            '5-node graphs, binary n=6): betweenness_bin/_wei, edge_betweenness_bin/_wei node and edge values equal the sum over ordered pairs of '
            'the fraction of shortest paths through the node/edge obtained by listing every shortest simple path; sum identities on binary graphs.',
            'trusted: path-enumeration oracle (bctmc/oracles.py); integer lengths so ties are exact', 'DESIGN.md section 4 C08'),
    'C09': ('smallscope', 'bounded-exhaustive enumeration of small (di)graphs vs triple-loop formulas',
            'All graphs n<=5 / digraphs n<=4 (binary), weights {1/8,1} on 4-node graphs and 3-node digraphs, signed {-1,-1/8,0,1/8,1} on 4 nodes '
            '(thorough: binary n=6, weighted n=5 / dir n=4): the five clustering coefficients (3 signed types) and four transitivities equal '
            'triple-loop evaluations of the Watts-Strogatz / Fagiolo / Onnela / Zhang-Horvath / Costantini-Perugini formulas; exact zeros; range [0,1].',
            'trusted: triple-loop reference formulas in checks/c09.py; transitivity judged only when a connected triple exists', 'DESIGN.md section 4 C09'),
    'C10': ('smallscope', 'bounded-exhaustive differential enumeration: weighted vs binary, directed vs undirected, weighted vs binarised input',
            'Every 0/1 digraph n<=4 and graph n<=5 (n=6 for the path-based pairs) through each weighted/binary pair, every symmetric matrix over '
            '{0,1/8,1} on 4 nodes through each directed/undirected pair, weighted matrices vs their binarisation through the weight-ignoring routines; '
            'the two members of a pair must return the same value (or raise the same exception type).',
            'differential oracle only: a defect shared by both members of a pair is invisible here (C03/C08/C09 judge them against definitions)', 'DESIGN.md section 4 C10'),
    'C12': ('smallscope', 'bounded-exhaustive enumeration of graphs x all (s,t) x transforms; returned paths are walked on the input',
            'distance_wei_floyd+retrieve_shortest_path on all small (di)graphs over integer lengths, dyadic weights (inv/log) and float near-tie '
            'alphabets, every ordered pair: path starts/ends right, uses existing connections, has the reported hops and length, empty iff unreachable, '
            'reported length is the true minimum. navigation_wu on all (L, D, max_hops) of a small scope: every path is a walk, reported lengths are '
            'those of the walk, failures infinite in all three, success ratio.',
            'navigation_wu exercised on undirected L only; trusted: bctmc/oracles.py min-plus', 'DESIGN.md section 4 C12'),
    'C03': ('smallscope', 'bounded-exhaustive enumeration of all small (di)graphs vs exact-hop min-plus / BFS reference model',
            'Every labelled digraph n<=4 / graph n<=5 (binary), lengths {1,2,3} on 3-node digraphs and 4-node graphs, dyadic '
            'weights for the inv/log transforms (thorough: lengths {1,2} on all 531441 4-node digraphs, 5-node graphs, binary n=6) '
            'through distance_bin/_wei/_wei_floyd, breadthdist, reachdist, charpath, efficiency_bin/_wei, rout_efficiency; '
            'distances, reachability flags, hop counts (must be the hop count of some minimum-length path) and means compared '
            'with an independent dynamic programme. Complete for that scope only.',
            'trusted: bctmc/oracles.py (min-plus over exact hop counts, BFS; cross-checked against each other at run time), numpy', 'DESIGN.md section 4 C03'),
    'C15': ('smallscope', 'bounded-exhaustive enumeration of graphs x all k against subset-enumeration oracle',
            'All graphs n<=5 (6 thorough) x k=0..n, all digraphs n<=4 x k=0..2n-1, 4-node weighted graphs x s on a 0.25 grid: '
            'kcore_bu/kcore_bd/score_wu matrix, size, peel order/levels, kcoreness_centrality_bu/_bd coreness and core sizes '
            'compared with the union of all node subsets that meet the bound internally (all 2^n subsets enumerated).',
            'trusted: subset-enumeration oracle in checks/c15.py; float64 inputs', 'DESIGN.md section 4 C15'),
    'C17': ('smallscope', 'bounded-exhaustive enumeration of small matrices x full dyadic p grid x thresholds x copy flag',
            'All symmetric {0,1,2,3} 4-node and all {0,1,2,3} 3-node / binary 4-node matrices, with and without diagonal, x p=j/32 '
            '(every .5 rounding boundary) x copy flag for threshold_proportional (count by exact rational round-half-up, strongest kept, '
            'diagonal, symmetry, aliasing); all {-2..2} matrices x every threshold for threshold_absolute, binarize, normalize, invert, '
            'weight_conversion against elementwise definitions.',
            'trusted: exact Fraction arithmetic for the expected count; float64 inputs; p restricted to values whose product is exact or far from .5', 'DESIGN.md section 4 C17'),
    'C16': ('smallscope', 'bounded-exhaustive enumeration of all labelled graphs up to n nodes vs BFS reference model',
            'Every labelled undirected graph with n<=6 (quick) / n<=7 (thorough) nodes, in binary, weighted and '
            'non-zero-diagonal variants, and every asymmetric 3-node 0/1 matrix, is run through get_components / '
            'number_of_components / distance_bin / breadthdist / reachdist and compared with an independent BFS. '
            'Complete for that scope; says nothing about n>7.',
            'trusted: BFS reference in bctmc/smallscope.py, numpy; float64 inputs only', 'DESIGN.md section 4 C16'),
}

ALL = ['C%02d' % i for i in range(1, 21)]
NOT_YET = 'no check built; no claim is made'


def main():
    checks = []
    for pid in ALL:
        if pid not in CHECKS:
            continue
        engine, technique, text, note, ref = CHECKS[pid]
        checks.append({
            'property_id': pid,
            'quick_cmd': '/venv/bin/python run_check.py %s --tier quick' % pid,
            'thorough_cmd': '/venv/bin/python run_check.py %s --tier thorough' % pid,
            'evidence_file': '/verif/evidence/%s.json' % pid,
            'replay_cmd_template': '/venv/bin/python run_check.py %s --replay {path}' % pid,
            'engine': engine,
            'level_claimed': {'category': 'model_checking', 'text': text, 'design_ref': ref},
            'level_note': note + ' | the exact, current input families (incl. the element-type, layout, self-connection, large-size and '
                                 'other dimensions added during the mutant waves, DESIGN.md 8.7-8.18) are the RULE string of '
                                 'checks/%s.py, copied into the evidence file as bounds; families that are not exhaustive over '
                                 'generator answers are named as such there' % pid.lower(),
            'technique': technique,
        })
    man = {
        'version': 1,
        'setup_cmd': '/venv/bin/python tools/setup_check.py && /venv/bin/python selftest/selftest.py',
        'hooks': {
            'guard': 'BCTPY_VERIF',
            'enable': 'none needed: the checks drive the unmodified library through its public seed= / argument seams; '
                      'the guard name is reserved and no source hook exists',
            'baseline_off_cmd': 'cd /repo && /venv/bin/python -m pytest -ra -q -p no:cacheprovider --timeout=900 '
                                '--continue-on-collection-errors',
            'source_commits': [],
            'add_only': True,
        },
        'engines': [
            {'name': 'rngmc', 'path': 'bctmc/explorer.py', 'kind_free_text': A,
             'serves_properties': [p for p in ALL if p in CHECKS and CHECKS[p][0] == 'rngmc']},
            {'name': 'smallscope', 'path': 'bctmc/smallscope.py', 'kind_free_text': B,
             'serves_properties': [p for p in ALL if p in CHECKS and CHECKS[p][0] == 'smallscope']},
            {'name': 'histories', 'path': 'bctmc/histories.py', 'kind_free_text': C,
             'serves_properties': [p for p in ALL if p in CHECKS and CHECKS[p][0] == 'histories']},
        ],
        'checks': checks,
        'notes': 'All checks: cd /verif && /venv/bin/python run_check.py <id> --tier quick|thorough. '
                 'The library is imported from /repo\'s working tree on every run; nothing is cached.',
        'not_applicable': [{'property_id': p, 'reason': NOT_YET} for p in ALL if p not in CHECKS],
    }
    with open(os.path.join(HERE, 'MANIFEST.json'), 'w') as f:
        json.dump(man, f, indent=1)
        f.write('\n')
    print('MANIFEST.json: %d checks, %d not claimed' % (len(checks), len(man['not_applicable'])))


if __name__ == '__main__':
    main()
