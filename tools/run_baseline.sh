#!/bin/sh
# runs the repository's pinned suite on /repo's working tree and compares with BASELINE.json stable_pass
out=${1:-/tmp/baseline_junit.xml}
cd /repo && /venv/bin/python -m pytest -q -p no:cacheprovider --timeout=900 --continue-on-collection-errors -n 8 --junitxml=$out >/dev/null 2>&1
/venv/bin/python - $out <<'PY'
import sys, json, xml.etree.ElementTree as ET
stable = set(json.load(open('/root/.vp/BASELINE.json'))['stable_pass'])
ok = set()
for tc in ET.parse(sys.argv[1]).getroot().iter('testcase'):
    name = tc.get('classname') + '::' + tc.get('name')
    if not [c for c in tc if c.tag in ('failure', 'error')]:
        ok.add(name)
print('stable passed %d/%d; missing: %s; head %s' % (len(stable & ok), len(stable), sorted(stable - ok), __import__('subprocess').check_output(['git','-C','/repo','log','--format=%h','-1']).decode().strip()))
PY
