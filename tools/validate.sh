#!/bin/sh
# validate MANIFEST.json and every evidence file against the schemas
python3-vt - <<'PY'
import json, glob, jsonschema
m = json.load(open('/verif/MANIFEST.json'))
jsonschema.validate(m, json.load(open('/root/.vp/MANIFEST.schema.json')))
es = json.load(open('/root/.vp/EVIDENCE.schema.json'))
for f in sorted(glob.glob('/verif/evidence/*.json')):
    jsonschema.validate(json.load(open(f)), es)
print('manifest + %d evidence files valid' % len(glob.glob('/verif/evidence/*.json')))
PY
