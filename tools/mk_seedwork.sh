#!/bin/sh
# usage: mk_seedwork.sh <Cnn> <tag>   -> /tmp/seedwork/<Cnn>-<tag>/{wt,PROPERTY.json,out}
set -e
id=$1; tag=$2; d=/tmp/seedwork/$id-$tag
mkdir -p $d/out
git -C /repo worktree add --detach $d/wt HEAD >/dev/null 2>&1
/venv/bin/python - "$id" "$d" <<'PY'
import json, sys
for l in open('/verif/properties.jsonl'):
    p = json.loads(l)
    if p['id'] == sys.argv[1]:
        json.dump(p, open(sys.argv[2] + '/PROPERTY.json', 'w'), indent=1)
PY
echo $d
