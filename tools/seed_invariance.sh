#!/bin/sh
# Coverage and verdict must not depend on VERIF_SEED (it only rotates the order of units and the choice of samples).
# usage: seed_invariance.sh [checks...]   (default: the fast ones)
cd /verif
checks=${@:-C03 C05 C08 C09 C13 C15 C16 C18 C19}
rc=0
for c in $checks; do
  a=$(VERIF_SEED=11 /venv/bin/python run_check.py $c 2>/dev/null | tail -1 | sed 's/ wall=.*//')
  b=$(VERIF_SEED=12 /venv/bin/python run_check.py $c 2>/dev/null | tail -1 | sed 's/ wall=.*//')
  if [ "$a" = "$b" ]; then echo "$c same: $a" | cut -c1-150; else echo "$c DIFFERS:"; echo " $a"; echo " $b"; rc=1; fi
done
exit $rc
