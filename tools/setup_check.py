#!/venv/bin/python
"""MANIFEST.setup_cmd: nothing to build (pure Python); verify the toolchain is usable offline."""
import os
import sys
sys.path.insert(0, os.path.dirname(os.path.dirname(os.path.abspath(__file__))))
import bctmc
bct = bctmc.import_bct()
import numpy, scipy
print('setup ok: python %s numpy %s scipy %s bct from %s' % (
    sys.version.split()[0], numpy.__version__, scipy.__version__, os.path.dirname(bct.__file__)))
