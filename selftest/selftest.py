#!/venv/bin/python
"""Self-test of the trusted base of engine A (DESIGN.md 1.3):

1. pruning-vs-stateless equivalence: for the smallest configuration of every harness family the
   set of reachable outputs found with state merging equals the set found by plain enumeration of
   all answer sequences (bounded depth); a stateless outcome missing from the pruned set would mean
   an unsound merge.
2. determinism: one recorded answer sequence replayed twice gives identical observations.
3. liveness analysis unit checks (f_lasti mapping, tail frames, loop variables).
4. audit: no module-level mutable state in the explored library modules.
5. seeded toy bug: the explorer finds a defect that needs one specific answer sequence.

exit 0 = all passed, 1 = a self-test failed.
"""
import os
import re
import sys

HERE = os.path.dirname(os.path.dirname(os.path.abspath(__file__)))
sys.path.insert(0, HERE)
if os.environ.get('PYTHONHASHSEED') != '0':
    os.execve(sys.executable, [sys.executable] + sys.argv, dict(os.environ, PYTHONHASHSEED='0'))

import bctmc  # noqa: E402
bct = bctmc.import_bct()
import numpy as np  # noqa: E402
from bctmc.explorer import Explorer, replay_answers  # noqa: E402
from bctmc.liveness import liveness  # noqa: E402
from bctmc.runner import quiet  # noqa: E402
from bctmc import rewiring as rw  # noqa: E402

FAIL = []


def outcomes(call, prune, depth_bound=None, unit=(0.25, 0.75), vec=(0.25, 0.75), cap=2000000):
    outs = set()

    def on_complete(status, value, trace):
        if status == 'ok':
            vals = value if isinstance(value, tuple) else (value,)
            outs.add(repr([np.round(np.asarray(v, dtype=float), 10).tolist() for v in vals]))
        else:
            outs.add('EXC ' + type(value).__name__)
        return False
    ex = Explorer(call, prune=prune, depth_bound=depth_bound, unit_points=unit, vec_unit_points=vec,
                  max_executions=cap)
    with quiet():
        st = ex.explore(on_complete)
    return outs, st


def equivalence(name, call, depth, **kw):
    a, sa = outcomes(call, True, **kw)
    b, sb = outcomes(call, False, depth_bound=depth, **kw)
    ok = b <= a and (a == b)
    print('%-34s pruned: %6d exec %4d outcomes | stateless(depth<=%d): %8d exec %4d outcomes | %s'
          % (name, sa['executions'], len(a), depth, sb['executions'], len(b), 'OK' if ok else 'MISMATCH'))
    if sa['capped'] or sb['capped']:
        FAIL.append(name + ': execution cap hit')
    if not ok:
        FAIL.append('%s: pruned-only=%d stateless-only=%d' % (name, len(a - b), len(b - a)))


def main():
    W = rw.und_from_edges(4, [(0, 1), (2, 3)], True)
    equivalence('randmio_und/matching4/2it', lambda rng: bct.randmio_und(W.copy(), rw.budget_itr(2, 2), seed=rng), 14)
    P = rw.und_from_edges(4, [(0, 1), (1, 2), (2, 3)], False)
    equivalence('randmio_und_connected/path4/1it',
                lambda rng: bct.randmio_und_connected(P.copy(), rw.budget_itr(1, 3), seed=rng), 6)
    D = rw.dir_from_arcs(4, [(0, 1), (2, 3), (3, 0)], True)
    equivalence('randmio_dir/3arcs/2it', lambda rng: bct.randmio_dir(D.copy(), rw.budget_itr(2, 3), seed=rng), 8)
    equivalence('latmio_dir/2arcs', lambda rng: bct.latmio_dir(rw.dir_from_arcs(4, [(0, 1), (2, 3)], True), 1, seed=rng), 11)
    T = np.array([[0, 1, -1], [1, 0, 2], [-1, 2, 0]], dtype=float)
    equivalence('probtune/signed_triangle',
                lambda rng: bct.modularity_probtune_und_sign(T.copy(), seed=rng), 7, unit=(0.2, 0.7))
    G = np.array([[0, 1, 1, 0], [1, 0, 1, 0], [1, 1, 0, 1], [0, 0, 1, 0]], dtype=float)
    equivalence('community_louvain/paw4', lambda rng: bct.community_louvain(G.copy(), seed=rng), 6)
    equivalence('modularity_louvain_und/paw4', lambda rng: bct.modularity_louvain_und(G.copy(), seed=rng), 6)
    equivalence('modularity_finetune_und_sign/T', lambda rng: bct.modularity_finetune_und_sign(T.copy(), seed=rng), 6)
    equivalence('makerandCIJdegreesfixed',
                lambda rng: bct.makerandCIJdegreesfixed(np.array([1, 1, 1]), np.array([1, 1, 1]), seed=rng), 6)
    equivalence('randomizer_bin_und/path4',
                lambda rng: bct.randomizer_bin_und(P.copy(), 0.5, seed=rng), 9, unit=(0.25, 0.375, 0.625, 0.75))

    # 2. determinism of replay
    call = lambda rng: bct.randmio_und(rw.und_from_edges(5, [(0, 1), (1, 2), (2, 3), (3, 4)]), rw.budget_itr(2, 4), seed=rng)  # noqa: E731
    traces = []
    ex0 = Explorer(call, max_executions=400)
    with quiet():
        ex0.explore(lambda st, v, tr: traces.append(tr) and False)
    answers = list(max(traces, key=len))
    with quiet():
        r1 = replay_answers(call, answers)
        r2 = replay_answers(call, answers)
    same = r1[0] == r2[0] and np.array_equal(r1[1][0], r2[1][0]) and r1[2] == r2[2]
    print('replay determinism: %s' % ('OK' if same else 'MISMATCH'))
    if not same:
        FAIL.append('replay determinism')

    # 3. liveness unit checks
    after, always, tail = liveness(bct.randmio_und.__code__)
    import dis
    calls = [i for i in dis.get_instructions(bct.randmio_und.__code__) if i.opname == 'CALL']
    ok = all(c.offset in after for c in calls) and any('R' in after[c.offset] for c in calls) and 'it' in always
    _, _, tail2 = liveness(bct.pick_four_unique_nodes_quickly.__code__)
    ok = ok and len(tail2) > 0
    # every inline-cache slot of a CALL maps to the same live set as the CALL itself
    ins = list(dis.get_instructions(bct.randmio_und.__code__))
    for k, i in enumerate(ins[:-1]):
        if i.opname == 'CALL':
            for o in range(i.offset, ins[k + 1].offset, 2):
                ok = ok and after[o] == after[i.offset]
    print('liveness unit checks: %s' % ('OK' if ok else 'FAILED'))
    if not ok:
        FAIL.append('liveness')

    # 4. audit: explored modules keep no module-level mutable state
    import ast
    bad = []
    root = os.path.join(bctmc.REPO, 'bct')
    for rel in ('algorithms', 'utils/miscellaneous_utilities.py', 'nbs.py'):
        path = os.path.join(root, rel)
        files = [os.path.join(path, f) for f in os.listdir(path)] if os.path.isdir(path) else [path]
        for f in files:
            if not f.endswith('.py'):
                continue
            tree = ast.parse(open(f).read())
            for node in ast.walk(tree):
                if isinstance(node, (ast.Global, ast.Nonlocal)):
                    bad.append('%s:%d global/nonlocal statement' % (f, node.lineno))
            for node in tree.body:
                if isinstance(node, ast.Assign) and isinstance(node.value, (ast.List, ast.Dict, ast.Set, ast.ListComp,
                                                                             ast.DictComp, ast.SetComp)):
                    bad.append('%s:%d module-level container' % (f, node.lineno))
    print('module-level mutable state audit: %s' % ('OK' if not bad else bad))
    if bad:
        FAIL.append('audit: ' + '; '.join(bad))

    # 5. seeded toy bug that needs one specific answer sequence
    def toy(rng):
        x = 0
        for _ in range(3):
            a = rng.randint(4)
            while a == 0:           # retry loop (self-loop in the state graph)
                a = rng.randint(4)
            x = x * 4 + a
        if x == 4 * 4 * 3 + 4 * 1 + 2:   # only the sequence 3,1,2
            raise RuntimeError('toy bug')
        return x
    found = []
    ex = Explorer(lambda rng: toy(rng))
    # toy() is not library code: frames are not under REPO, so pruning is keyed on (kind, menu) only -> disable
    ex.prune = False
    ex.depth_bound = 5
    ex.explore(lambda st, v, tr: found.append(tr) if st == 'exc' else None)
    ok = len(found) >= 1 and all([a for a in tr if a] == [3, 1, 2] for tr in found)
    print('seeded toy bug found by exploration: %s (%d paths)' % ('OK' if ok else 'FAILED', len(found)))
    if not ok:
        FAIL.append('toy bug')

    if FAIL:
        print('SELFTEST FAILED: ' + ' | '.join(FAIL))
        return 1
    print('selftest: all passed')
    return 0


if __name__ == '__main__':
    sys.exit(main())
