"""Trees beyond the exhaustive all-graphs scope.

* labelled_tree(n, idx): the idx-th labelled tree on n nodes (Pruefer sequence = digits of idx base n),
  0 <= idx < n**(n-2): a complete, index-addressable enumeration of all labelled trees.
* shapes(n): one representative of every unlabelled (free) tree on n nodes (level-sequence enumeration of rooted
  trees, deduplicated by the AHU canonical form rooted at the centre).
* scan_orders(adj): a fixed family of node orders of a tree - BFS / reverse BFS / DFS pre- and post-order from every
  root with children taken in both directions, leaf-peeling order and its reverse, degree ascending / descending.
"""
import numpy as np


def tree_count(n):
    return 1 if n <= 2 else n ** (n - 2)


def labelled_tree_edges(n, idx):
    if n == 1:
        return []
    if n == 2:
        return [(0, 1)]
    seq = []
    for _ in range(n - 2):
        idx, d = divmod(idx, n)
        seq.append(d)
    degree = [1] * n
    for v in seq:
        degree[v] += 1
    edges = []
    # standard linear-ish decoding (n is tiny)
    import heapq
    leaves = [v for v in range(n) if degree[v] == 1]
    heapq.heapify(leaves)
    for v in seq:
        leaf = heapq.heappop(leaves)
        edges.append((leaf, v))
        degree[v] -= 1
        if degree[v] == 1:
            heapq.heappush(leaves, v)
    a = heapq.heappop(leaves)
    b = heapq.heappop(leaves)
    edges.append((a, b))
    return edges


def matrix(n, edges):
    A = np.zeros((n, n))
    for a, b in edges:
        A[a, b] = A[b, a] = 1.0
    return A


def labelled_tree(n, idx):
    return matrix(n, labelled_tree_edges(n, idx))


def _rooted_level_sequences(n):
    """Beyer-Hedetniemi: all rooted trees on n nodes as canonical level sequences."""
    L = list(range(1, n + 1))
    while True:
        yield tuple(L)
        # the rightmost position with level > 2
        p = n - 1
        while p > 0 and L[p] <= 2:
            p -= 1
        if p == 0:
            return
        q = p - 1
        while L[q] != L[p] - 1:
            q -= 1
        for i in range(p, n):
            L[i] = L[i - (p - q)]


def _adj_from_levels(L):
    n = len(L)
    adj = [[] for _ in range(n)]
    stack = []
    for v, lev in enumerate(L):
        while len(stack) >= lev:
            stack.pop()
        if stack:
            u = stack[-1]
            adj[u].append(v)
            adj[v].append(u)
        stack.append(v)
    return adj


def _centres(adj):
    n = len(adj)
    deg = [len(a) for a in adj]
    alive = n
    leaves = [v for v in range(n) if deg[v] <= 1]
    removed = [False] * n
    while alive > 2:
        nxt = []
        for v in leaves:
            removed[v] = True
            alive -= 1
            for w in adj[v]:
                if not removed[w]:
                    deg[w] -= 1
                    if deg[w] == 1:
                        nxt.append(w)
        leaves = nxt
    return [v for v in range(n) if not removed[v]]


def _ahu(adj, v, parent):
    return '(' + ''.join(sorted(_ahu(adj, w, v) for w in adj[v] if w != parent)) + ')'


def canonical(adj):
    return min(_ahu(adj, c, -1) for c in _centres(adj))


_SHAPES = {}


def shapes(n):
    """adjacency lists, one per free tree on n nodes."""
    if n not in _SHAPES:
        seen = {}
        if n == 1:
            seen['()'] = [[]]
        else:
            for L in _rooted_level_sequences(n):
                adj = _adj_from_levels(L)
                seen.setdefault(canonical(adj), adj)
        _SHAPES[n] = [seen[k] for k in sorted(seen)]
    return _SHAPES[n]


def scan_orders(adj):
    """list of (label, order) where order[k] = the node that gets index k."""
    n = len(adj)
    out = []
    for rev in (False, True):
        nb = [sorted(a, reverse=rev) for a in adj]
        for r in range(n):
            bfs, seen = [r], {r}
            for v in bfs:
                for w in nb[v]:
                    if w not in seen:
                        seen.add(w)
                        bfs.append(w)
            pre, post = [], []

            def dfs(v, p):
                pre.append(v)
                for w in nb[v]:
                    if w != p:
                        dfs(w, v)
                post.append(v)
            dfs(r, -1)
            tag = 'r%d%s' % (r, 'd' if rev else 'a')
            out += [('bfs' + tag, bfs), ('rbfs' + tag, bfs[::-1]), ('pre' + tag, pre), ('post' + tag, post)]
        # leaf peeling
        deg = [len(a) for a in adj]
        removed = [False] * n
        peel = []
        while len(peel) < n:
            layer = sorted([v for v in range(n) if not removed[v] and deg[v] <= 1], reverse=rev)
            if not layer:
                layer = [v for v in range(n) if not removed[v]]
            for v in layer:
                removed[v] = True
                peel.append(v)
            for v in layer:
                for w in adj[v]:
                    if not removed[w]:
                        deg[w] -= 1
        out += [('peel' + ('d' if rev else 'a'), peel), ('rpeel' + ('d' if rev else 'a'), peel[::-1])]
        degs = sorted(range(n), key=lambda v: (len(adj[v]), -v if rev else v))
        out += [('degasc' + ('d' if rev else 'a'), degs), ('degdesc' + ('d' if rev else 'a'), degs[::-1])]
    return out


_FAM = {}


def shape_family(n):
    """[(label, matrix)] : every free tree on n nodes under every scan order (distinct matrices only)."""
    if n not in _FAM:
        fam = []
        for si, adj in enumerate(shapes(n)):
            seen = set()
            for lab, order in scan_orders(adj):
                pos = {v: k for k, v in enumerate(order)}
                A = np.zeros((n, n))
                for v in range(n):
                    for w in adj[v]:
                        A[pos[v], pos[w]] = 1.0
                key = A.tobytes()
                if key not in seen:
                    seen.add(key)
                    fam.append(('tree%d_%d/%s' % (n, si, lab), A))
        _FAM[n] = fam
    return _FAM[n]


def shape_orders(n):
    """[(shape index, base matrix (node v at index v), [(label, perm)])]: perm[k] = the node of the base matrix that
    sits at index k of the renumbered matrix, i.e. renumbered = base[ix_(perm, perm)]; distinct matrices only."""
    out = []
    for si, adj in enumerate(shapes(n)):
        A = np.zeros((n, n))
        for v in range(n):
            for w in adj[v]:
                A[v, w] = 1.0
        seen = {A.tobytes()}
        perms = []
        for lab, order in scan_orders(adj):
            p = np.array(order)
            B = A[np.ix_(p, p)]
            key = B.tobytes()
            if key not in seen:
                seen.add(key)
                perms.append((lab, p))
        out.append((si, A, perms))
    return out
