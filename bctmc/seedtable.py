"""Table of every public seed-accepting callable with one or two tiny argument tuples (C05),
also used by C13 for the randomised routines."""
import inspect

import numpy as np

import bct


def und(n, edges, w=None):
    A = np.zeros((n, n))
    for k, (a, b) in enumerate(edges):
        A[a, b] = A[b, a] = 1.0 if w is None else w[k]
    return A


def arcs(n, es, w=None):
    A = np.zeros((n, n))
    for k, (a, b) in enumerate(es):
        A[a, b] = 1.0 if w is None else w[k]
    return A


RING5 = [(0, 1), (1, 2), (2, 3), (3, 4), (0, 4)]
BU5 = und(5, RING5 + [(0, 2)])                                   # binary undirected, connected
WU5 = und(5, RING5 + [(0, 2)], [1, 2, 3, 4, 5, 6])               # weighted undirected
BD5 = arcs(5, [(0, 1), (1, 2), (2, 3), (3, 4), (4, 0), (0, 2), (2, 0), (1, 3)])   # strongly connected
WD5 = arcs(5, [(0, 1), (1, 2), (2, 3), (3, 4), (4, 0), (0, 2), (2, 0), (1, 3)], [1, 2, 3, 4, 5, 6, 7, 8])
SU4 = und(4, [(0, 1), (1, 2), (2, 3), (0, 3), (0, 2)], [1, -2, 3, -4, 5])
SD4 = arcs(4, [(0, 1), (2, 3), (0, 3), (2, 1), (1, 0)], [1, -2, -3, 4, 5])
AGREE4 = np.array([[0, .9, .1, 0], [.9, 0, .2, .1], [.1, .2, 0, .8], [0, .1, .8, 0]])
def _noisy_agreement(n, a, b, m):
    D = np.zeros((n, n))
    for i in range(n):
        for j in range(i + 1, n):
            D[i, j] = D[j, i] = ((i * a + j * b + i * j) % m) / float(m)
    return D


# agreement matrices on which consensus_und needs several clustering rounds (the generator is re-used across rounds)
NOISY9 = _noisy_agreement(9, 2, 9, 7)
NOISY9B = _noisy_agreement(9, 5, 11, 13)
XYZ5 = np.array([[0, 0, 0], [1, 0, 0], [0, 1, 0], [0, 0, 1], [1, 1, 1]], dtype=float)
DIST5 = np.sqrt(((XYZ5[:, None, :] - XYZ5[None, :, :]) ** 2).sum(axis=2))


def _subjects(n, k, shift):
    base = np.zeros((n, n, k))
    for s in range(k):
        M = np.zeros((n, n))
        for (a, b) in [(0, 1), (1, 2), (0, 2), (2, 3)]:
            M[a, b] = M[b, a] = 1.0 + 0.1 * ((s * 7 + a * 3 + b) % 5) + (shift if (a, b) != (2, 3) else 0)
        base[:, :, s] = M
    return base


NBS_X = _subjects(4, 3, 0.0)
NBS_Y = _subjects(4, 3, 2.0)

def signed_ring(n, directed):
    """a sparse signed network on n nodes: every node linked to its next three neighbours, signs + - +, distinct weights"""
    W = np.zeros((n, n))
    for i in range(n):
        for d, sg in ((1, 1.0), (2, -1.0), (3, 1.0)):
            w = sg * (1.0 + ((i * 3 + d) % 7) / 8.0)
            W[i, (i + d) % n] = w
            if not directed:
                W[(i + d) % n, i] = w
    return W


def signed_dense(n, directed):
    """a third of the cells positive, a third negative, a third empty (by a fixed arithmetic pattern), weights 1..1.5"""
    i, j = np.indices((n, n))
    lo, hi = (i, j) if directed else (np.minimum(i, j), np.maximum(i, j))
    pat = (lo * 7 + hi * 3) % 3
    W = np.where(pat == 1, 1.0, np.where(pat == 2, -1.0, 0.0)) * (1 + ((lo + hi) % 5) / 8.0)
    np.fill_diagonal(W, 0)
    return W


LARGE_SIGNED_DENSE = {'randmio_und_signed': ((signed_dense(220, False), 0.01), {}),
                      'randmio_dir_signed': ((signed_dense(220, True), 0.005), {}),
                      'null_model_und_sign': ((signed_dense(220, False),), {'bin_swaps': 0.01, 'wei_freq': 0.1}),
                      'null_model_dir_sign': ((signed_dense(220, True),), {'bin_swaps': 0.005, 'wei_freq': 0.1})}

# beyond 216 nodes n^4 no longer fits a 32-bit integer: the node picker of the signed rewirers may take another path
LARGE_SIGNED = {'randmio_und_signed': ((signed_ring(220, False), 0.02), {}), 'randmio_dir_signed': ((signed_ring(220, True), 0.01), {}),
                'null_model_und_sign': ((signed_ring(220, False),), {'bin_swaps': 0.02, 'wei_freq': 1}),
                'null_model_dir_sign': ((signed_ring(220, True),), {'bin_swaps': 0.01, 'wei_freq': 1})}

TABLE = {
    'randmio_und': [((BU5, 1), {}), ((WU5, 1), {})],
    'randmio_und_connected': [((BU5, 1), {}), ((WU5, 2), {})],
    'randmio_dir': [((BD5, 1), {}), ((WD5, 1), {})],
    'randmio_dir_connected': [((BD5, 1), {}), ((WD5, 2), {})],
    'latmio_und': [((WU5, 1), {}), ((BU5, 1), {'D': DIST5})],
    'latmio_und_connected': [((BU5, 1), {}), ((WU5, 1), {'D': DIST5})],
    'latmio_dir': [((WD5, 1), {}), ((BD5, 1), {'D': DIST5})],
    'latmio_dir_connected': [((BD5, 1), {}), ((WD5, 1), {'D': DIST5})],
    'randomize_graph_partial_und': [((WU5, np.zeros((5, 5)), 2), {})],
    'randomizer_bin_und': [((BU5, 0.5), {}), ((BU5, 1.0), {})],
    'randmio_und_signed': [((SU4, 1), {})],
    'randmio_dir_signed': [((SD4, 1), {})],
    'null_model_und_sign': [((SU4,), {'bin_swaps': 1, 'wei_freq': 0.5}), ((SU4,), {'bin_swaps': 2, 'wei_freq': 1}),
                            ((SU4,), {'bin_swaps': 5, 'wei_freq': 1})],
    # the nested rewiring and the weight dealing must both consume the stream and both show in the result
    'null_model_dir_sign': [((SD4,), {'bin_swaps': 1, 'wei_freq': 0.5}), ((SD4,), {'bin_swaps': 2, 'wei_freq': 1}),
                            ((SD4,), {'bin_swaps': 5, 'wei_freq': 1})],
    'makeevenCIJ': [((8, 20, 2), {})],
    'makefractalCIJ': [((3, 2, 2), {})],
    'makerandCIJ_dir': [((5, 7), {})],
    'makerandCIJ_und': [((5, 4), {})],
    'makerandCIJdegreesfixed': [((np.array([1, 2, 1, 1]), np.array([2, 1, 1, 1])), {}),
                                ((np.array([2, 2, 1, 1]), np.array([1, 1, 2, 2])), {})],
    'makeringlatticeCIJ': [((6, 15), {})],
    'maketoeplitzCIJ': [((3, 6, 1.0), {})],      # K = all cells: the rejection loop ends at once for every stream
    'community_louvain': [((BU5,), {}), ((WD5,), {'gamma': 1.1}), ((WU5,), {'ci': np.array([3, 3, 7, 7, 9])}),
                          ((BU5,), {'B': WU5 - WU5.mean()})],
    'modularity_louvain_und': [((BU5,), {}), ((WU5,), {'hierarchy': True})],
    'modularity_louvain_dir': [((BD5,), {}), ((WD5,), {'hierarchy': True})],
    'modularity_louvain_und_sign': [((SU4,), {})],
    'modularity_finetune_und': [((BU5,), {}), ((WU5,), {'ci': np.array([1, 1, 2, 2, 2])})],
    'modularity_finetune_dir': [((BD5,), {}), ((WD5,), {'ci': np.array([2, 2, 5, 5, 5])})],
    'modularity_finetune_und_sign': [((SU4,), {}), ((SU4,), {'ci': np.array([4, 4, 8, 8]), 'qtype': 'gja'})],
    'modularity_probtune_und_sign': [((SU4,), {}), ((SU4,), {'p': 0.9, 'ci': np.array([1, 2, 1, 2])})],
    'core_periphery_dir': [((BD5,), {}), ((BU5,), {}), ((BD5,), {'C0': np.array([1, 0, 1, 0, 0]), 'gamma': 1.2})],
    'consensus_und': [((AGREE4, 0.3), {'reps': 4}), ((AGREE4, 0.05), {'reps': 3}), ((NOISY9, 0.2), {'reps': 2}),
                      ((NOISY9B, 0.35), {'reps': 2})],
    'rentian_scaling': [((BU5, XYZ5, 6), {})],
    'nbs_bct': [((NBS_X, NBS_Y, 2.0), {'k': 4}), ((NBS_X, NBS_Y, 2.0), {'k': 3, 'paired': True}),
                ((NBS_X, NBS_Y, 2.0), {'k': 3, 'tail': 'left'}), ((NBS_X, NBS_Y, 2.0), {'k': 3, 'tail': 'right', 'verbose': True})],
    'generative_model': [((np.zeros((5, 5)), DIST5, 4, np.array([-1.0])),
                          {'gamma': np.array([0.5]), 'model_type': 'matching'}),
                         ((np.zeros((5, 5)), DIST5, 4, np.array([-1.0])),
                          {'gamma': np.array([0.5]), 'model_type': 'deg-avg'})],
    'evaluate_generative_model': [((np.zeros((5, 5)), BU5, DIST5, np.array([-1.0])),
                                   {'gamma': np.array([0.5]), 'model_type': 'matching'})],
    'pick_four_unique_nodes_quickly': [((5,), {})],
    'get_rng': None,                 # handled specially
    'generate_fc': 'stub',           # raises NotImplementedError; global-state clause only
}


def _input_class_variants():
    """For every table entry whose first argument is a square non-negative connection matrix, two more entries: the
    same call on a matrix with two of its connections made negative (symmetry kept), and on one with self-connections.
    A routine may treat such input on a different code path (hand it to a signed variant, strip the diagonal, raise);
    the seed contract is the same on every path."""
    for name, entries in list(TABLE.items()):
        if not isinstance(entries, list) or name in ('consensus_und', 'generative_model', 'evaluate_generative_model'):
            continue
        extra = []
        for a, kw in entries:
            M = a[0] if a else None
            if not (isinstance(M, np.ndarray) and M.ndim == 2 and M.shape[0] == M.shape[1] and M.shape[0] >= 3
                    and M.dtype.kind == 'f' and M.any() and not (M < 0).any()):
                continue
            sym = np.array_equal(M, M.T)
            S = M.copy()
            cells = [(i, j) for i in range(len(M)) for j in range(len(M)) if i != j and M[i, j] != 0 and (i < j or not sym)]
            for (i, j) in cells[:2]:
                S[i, j] = -S[i, j]
                if sym:
                    S[j, i] = S[i, j]
            Dg = M.copy()
            np.fill_diagonal(Dg, [1.0 + (k % 2) for k in range(len(M))])
            extra.append(((S,) + tuple(a[1:]), kw))
            extra.append(((Dg,) + tuple(a[1:]), kw))
            break           # one pair of variants per routine
        entries.extend(extra)


_input_class_variants()


def seed_accepting():
    out = []
    for name in sorted(dir(bct)):
        f = getattr(bct, name)
        if callable(f) and getattr(f, '__module__', '').startswith('bct'):
            try:
                sig = inspect.signature(f)
            except (TypeError, ValueError):
                continue
            if 'seed' in sig.parameters:
                out.append(name)
    return out


def clone(x):
    if isinstance(x, np.ndarray):
        return x.copy()
    if isinstance(x, (list, tuple)):
        return type(x)(clone(v) for v in x)
    if isinstance(x, dict):
        return {k: clone(v) for k, v in x.items()}
    return x


def call(name, idx, seed_kw):
    """Call bct.<name> with fresh copies of argument tuple idx; seed_kw is {} or {'seed': ...}."""
    args, kw = TABLE[name][idx]
    return getattr(bct, name)(*clone(args), **dict(clone(kw), **seed_kw))
