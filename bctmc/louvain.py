"""Shared harness for the community-detection family (C02, C07, part of C14):
reference modularity, input catalogue, call adapters, exploration driver."""
import itertools

import numpy as np

import bct
from . import smallscope as ss
from .explorer import Explorer, replay_answers
from .runner import quiet, guarded
from .tally import Tally

# ---------------------------------------------------------------------------
# reference quality functions (from the definitions)
# ---------------------------------------------------------------------------


def q_dir(W, ci, gamma=1.0):
    """sum_ij [W_ij - gamma k_i^out k_j^in / s] delta(c_i,c_j) / s."""
    W = np.asarray(W, dtype=float)
    s = W.sum()
    ko = W.sum(axis=1)
    ki = W.sum(axis=0)
    n = len(W)
    tot = 0.0
    for i in range(n):
        for j in range(n):
            if ci[i] == ci[j]:
                tot += W[i, j] - gamma * ko[i] * ki[j] / s
    return tot / s


def q_signed(W, ci, gamma=1.0, qtype='sta'):
    W = np.asarray(W, dtype=float)
    W0 = W * (W > 0)
    W1 = -W * (W < 0)
    s0, s1 = W0.sum(), W1.sum()
    d = {'smp': (1 / s0 if s0 else 0, 1 / s1 if s1 else 0),
         'gja': (1 / (s0 + s1), 1 / (s0 + s1)),
         'sta': (1 / s0 if s0 else 0, 1 / (s0 + s1)),
         'pos': (1 / s0 if s0 else 0, 0),
         'neg': (0, 1 / s1 if s1 else 0)}[qtype]
    d0, d1 = d
    if not s0:
        d0 = 0
    if not s1:
        d1 = 0
    q0 = q_dir(W0, ci, gamma) * s0 if s0 else 0.0
    q1 = q_dir(W1, ci, gamma) * s1 if s1 else 0.0
    return d0 * q0 - d1 * q1


def q_potts(W, ci, gamma=1.0):
    W = np.asarray(W, dtype=float)
    B = W - gamma * np.logical_not(W)
    n = len(W)
    return sum(B[i, j] for i in range(n) for j in range(n) if ci[i] == ci[j]) / W.sum()


def q_ref(cfg, ci):
    fn, kw = cfg['fn'], cfg['kw']
    W = np.array(cfg['W'], dtype=float)
    g = kw.get('gamma', 1)
    if fn == 'community_louvain':
        B = kw.get('B', 'modularity')
        if B == 'modularity':
            return q_dir(W, ci, g)
        if B == 'potts':
            return q_potts(W, ci, g)
        return q_signed(W, ci, g, 'gja' if B == 'negative_sym' else 'sta')
    if fn.endswith('_und_sign'):
        return q_signed(W, ci, g, kw.get('qtype', 'sta'))
    return q_dir(W, ci, g)


START_PARAM = {'community_louvain': 'ci', 'modularity_finetune_und': 'ci', 'modularity_finetune_dir': 'ci',
               'modularity_finetune_und_sign': 'ci', 'modularity_probtune_und_sign': 'ci',
               'modularity_und': 'kci', 'modularity_dir': 'kci'}


def start_partition(cfg):
    p = START_PARAM.get(cfg['fn'])
    n = len(cfg['W'])
    if p and cfg['kw'].get(p) is not None:
        return list(cfg['kw'][p])
    return list(range(1, n + 1))


def make_call(cfg):
    f = getattr(bct, cfg['fn'])
    W = np.array(cfg['W'], dtype=cfg.get('W_dtype') or float)       # W_dtype: the element type the routine is given
    kw = dict(cfg['kw'])
    for k in ('ci', 'kci'):
        if kw.get(k) is not None:
            kw[k] = np.array(kw[k])
    return lambda rng: f(W.copy(), seed=rng, **{k: (v.copy() if isinstance(v, np.ndarray) else v)
                                                 for k, v in kw.items()})


def valid_partition(ci, n):
    ci = np.asarray(ci)
    if ci.shape != (n,):
        return 'shape %r' % (ci.shape,)
    if not np.all(np.equal(np.mod(ci, 1), 0)):
        return 'non-integer labels'
    labs = sorted(set(int(x) for x in ci))
    if labs != list(range(1, len(labs) + 1)):
        return 'labels %r are not 1..k' % (labs,)
    return None


def same_partition(a, b):
    a, b = list(a), list(b)
    return len(a) == len(b) and np.array_equal(np.equal.outer(a, a), np.equal.outer(b, b))


# ---------------------------------------------------------------------------
# inputs
# ---------------------------------------------------------------------------


def und_graphs(n, alphabet=(0, 1)):
    out = []
    for idx in range(1, ss.und_count(n, alphabet)):
        out.append(('und%d_%d' % (n, idx), ss.und_graph(n, alphabet, idx)))
    return out


def dir_graphs(n, max_arcs=None):
    out = []
    for idx in range(1, ss.dir_count(n, (0, 1))):
        A = ss.dir_graph(n, (0, 1), idx)
        if max_arcs is not None and A.sum() > max_arcs:
            continue
        out.append(('dir%d_%d' % (n, idx), A))
    return out


def signed_graphs(max_nonzero=4):
    pairs = ss.und_pairs(4)
    out = []
    for signs in itertools.product((0, 1, -1), repeat=6):
        nz = [s for s in signs if s]
        if not nz or len(nz) > max_nonzero or 1 not in nz:
            continue
        W = np.zeros((4, 4))
        for k, ((a, b), s) in enumerate(zip(pairs, signs)):
            W[a, b] = W[b, a] = s * (1.0 + (k % 2))
        out.append(('sg' + ''.join('0+-'[s] for s in signs), W))
    return out


def named():
    A = np.zeros((6, 6))
    for a, b in [(0, 1), (1, 2), (0, 2), (3, 4), (4, 5), (3, 5), (2, 3)]:
        A[a, b] = A[b, a] = 1
    B = np.zeros((5, 5))
    for a, b in [(0, 1), (1, 2), (0, 2), (2, 3), (3, 4)]:
        B[a, b] = B[b, a] = 1
    C = np.zeros((5, 5))
    for a, b, w in [(0, 1, 2), (1, 2, 1), (2, 0, 1), (2, 3, 1), (3, 4, 2), (4, 2, 1)]:
        C[a, b] = w
    P6 = np.zeros((6, 6))          # three pairs; the outer two joined by a weak edge, the middle one heavy
    for a, b, w in [(0, 1, 1), (2, 3, 5), (4, 5, 1), (1, 4, 0.5)]:
        P6[a, b] = P6[b, a] = w
    P5 = np.zeros((5, 5))          # pair - isolated node - pair, pairs joined by a weak edge
    for a, b, w in [(0, 1, 1), (3, 4, 1), (1, 3, 0.5)]:
        P5[a, b] = P5[b, a] = w
    Q6 = np.zeros((6, 6))          # three pairs in a chain of weak edges
    for a, b, w in [(0, 1, 2), (2, 3, 2), (4, 5, 2), (1, 2, 1), (3, 4, 1)]:
        Q6[a, b] = Q6[b, a] = w
    return {'two_triangles_bridge6': A, 'triangle_tail5': B, 'two_dtriangles_shared5': C,
            'three_pairs6': P6, 'pair_node_pair5': P5, 'pair_chain6': Q6}


# ---------------------------------------------------------------------------
# exploration
# ---------------------------------------------------------------------------


def explore_config(prop, cfg, judge, max_executions=200000, invariant=None, collect=None):
    t = Tally(prop)
    call = make_call(cfg)
    outcomes = set()
    p = cfg['kw'].get('p')
    unit = (0.25, 0.75) if p is None else (max(1e-6, p / 2.0), min(1 - 1e-6, (1 + p) / 2.0))

    def case_for(trace):
        return {'config': cfg, 'answers': list(trace)}

    def on_complete(status, value, trace):
        bad = judge(t, cfg, status, value, lambda: case_for(trace))
        if status == 'ok':
            try:
                key = repr([np.asarray(v, dtype=float).round(12).tolist() for v in value])
            except Exception:
                key = repr(value)
            if key not in outcomes:
                outcomes.add(key)
                if collect is not None:
                    collect(value)
        if not bad and not t.samples and len(trace) >= 2:
            t.sample({'fn': cfg['fn'], 'graph': cfg['tag'], 'kw': cfg['kw'], 'answers': list(trace)[:30]},
                     order=hash(cfg['tag']) % 1000)
        return bad
    inv = None
    if invariant is not None:
        def inv(frames, trace):
            invariant(t, cfg, frames, lambda: case_for(trace))
    ex = Explorer(call, unit_points=unit, max_executions=max_executions, invariant=inv,
                  max_seconds=600 if max_executions <= 400000 else 3000)
    with quiet():
        st = ex.explore(on_complete)
    t.c['configs'] += 1
    t.c['evaluations'] += st['completed']
    t.c['executions'] += st['executions']
    t.c['states'] += st['states']
    t.c['transitions'] += st['transitions']
    t.c['distinct_outcomes'] += len(outcomes)
    if len(outcomes) >= 2:
        t.c['nontrivial'] += 1
    t.gauge('max_depth', st['max_depth'])
    t.gauge('max_states_in_one_config', st['states'])
    for k in ('horizon_hits', 'timeouts', 'opaque_states', 'unmodelled_draws'):
        if st[k]:
            t.flags[k] += st[k]
    if st['capped']:
        t.flags['execution_cap_hit'] += 1
        t.note('execution/time cap hit in %s %s %r (%d states)' % (cfg['fn'], cfg['tag'], {k: v for k, v in cfg['kw'].items() if k != 'ci'}, st['states']))
    return t


def replay_case(prop, rec, judge, invariant=None):
    t = Tally(prop)
    case = rec['case']
    cfg = case['config']
    call = make_call(cfg)
    p = cfg['kw'].get('p')
    unit = (0.25, 0.75) if p is None else (max(1e-6, p / 2.0), min(1 - 1e-6, (1 + p) / 2.0))
    at = None
    if invariant is not None:
        def at(frames, trace):
            if frames:
                invariant(t, cfg, frames, lambda: case)
    with quiet():
        status, value, _ = replay_answers(call, case['answers'], unit_points=unit, at_choice=at)
    if status != 'cut':
        judge(t, cfg, status, value, lambda: case)
    return t
