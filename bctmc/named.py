"""A fixed, stated family of structured graphs on 7-10 nodes (beyond the exhaustive n<=5/6 scopes):
paths, cycles, stars, wheels, complete and complete bipartite graphs, ladders, lollipops, bridged
cliques, trees, circulants, cube, Petersen, disjoint unions with isolated nodes at the lowest /
highest index, a dominating node, and directed counterparts (paths, cycles with chords, DAGs,
tournaments, graphs with sources and sinks).  Each graph is also offered relabelled by the reversal
of the node order (structure hits different indices)."""
import itertools

import numpy as np


def _und(n, edges):
    A = np.zeros((n, n))
    for a, b in edges:
        if a != b:
            A[a, b] = A[b, a] = 1.0
    return A


def _dir(n, arcs):
    A = np.zeros((n, n))
    for a, b in arcs:
        if a != b:
            A[a, b] = 1.0
    return A


def undirected():
    g = {}
    for n in (7, 8):
        g['path%d' % n] = _und(n, [(i, i + 1) for i in range(n - 1)])
        g['cycle%d' % n] = _und(n, [(i, (i + 1) % n) for i in range(n)])
        g['star%d' % n] = _und(n, [(0, i) for i in range(1, n)])
        g['wheel%d' % n] = _und(n, [(0, i) for i in range(1, n)] + [(i, i % (n - 1) + 1) for i in range(1, n)])
        g['complete%d' % n] = _und(n, list(itertools.combinations(range(n), 2)))
        g['circulant%d_12' % n] = _und(n, [(i, (i + 1) % n) for i in range(n)] + [(i, (i + 2) % n) for i in range(n)])
        g['lollipop%d' % n] = _und(n, list(itertools.combinations(range(4), 2)) + [(i, i + 1) for i in range(3, n - 1)])
        g['dominating%d' % n] = _und(n, [(n - 1, i) for i in range(n - 1)] + [(0, 1), (2, 3)])
        g['path%d_isolated_last' % n] = _und(n, [(i, i + 1) for i in range(n - 2)])
        g['path%d_isolated_first' % n] = _und(n, [(i, i + 1) for i in range(1, n - 1)])
    g['K34'] = _und(7, [(i, j) for i in range(3) for j in range(3, 7)])
    g['K44'] = _und(8, [(i, j) for i in range(4) for j in range(4, 8)])
    g['ladder8'] = _und(8, [(i, i + 1) for i in range(3)] + [(i, i + 1) for i in range(4, 7)] + [(i, i + 4) for i in range(4)])
    g['cliques_bridge8'] = _und(8, list(itertools.combinations(range(4), 2)) +
                                [(a + 4, b + 4) for a, b in itertools.combinations(range(4), 2)] + [(3, 4)])
    g['cliques_path9'] = _und(9, list(itertools.combinations(range(3), 2)) +
                              [(a + 6, b + 6) for a, b in itertools.combinations(range(3), 2)] +
                              [(2, 3), (3, 4), (4, 5), (5, 6)])
    g['bintree7'] = _und(7, [(0, 1), (0, 2), (1, 3), (1, 4), (2, 5), (2, 6)])
    g['caterpillar8'] = _und(8, [(0, 1), (1, 2), (2, 3), (1, 4), (2, 5), (2, 6), (3, 7)])
    g['triangle_path_isolated8'] = _und(8, [(0, 1), (1, 2), (0, 2), (3, 4), (4, 5), (5, 6)])
    g['two_equal_components8'] = _und(8, [(0, 1), (1, 2), (2, 3), (4, 5), (5, 6), (6, 7)])
    g['interleaved_components8'] = _und(8, [(0, 2), (2, 4), (4, 6), (1, 3), (3, 5), (5, 7)])
    g['late_merge8'] = _und(8, [(0, 7), (1, 6), (2, 5), (3, 4), (4, 5), (5, 6), (6, 7)])
    g['cube8'] = _und(8, [(i, j) for i in range(8) for j in range(i + 1, 8) if bin(i ^ j).count('1') == 1])
    g['petersen10'] = _und(10, [(i, (i + 1) % 5) for i in range(5)] + [(i, i + 5) for i in range(5)] +
                           [(5 + i, 5 + (i + 2) % 5) for i in range(5)])
    g['triangle_pendant_plus7'] = _und(7, [(0, 1), (1, 2), (0, 2), (2, 3), (4, 5), (5, 6), (4, 6)])
    g['three_round_peel8'] = _und(8, list(itertools.combinations(range(4), 2)) + [(3, 4), (4, 5), (5, 6), (6, 7), (4, 6)])
    return g


def directed():
    g = {}
    for n in (7, 8):
        g['dpath%d' % n] = _dir(n, [(i, i + 1) for i in range(n - 1)])
        g['dcycle%d' % n] = _dir(n, [(i, (i + 1) % n) for i in range(n)])
        g['dcycle%d_chords' % n] = _dir(n, [(i, (i + 1) % n) for i in range(n)] + [(0, 3), (2, 5), (4, 1)])
        g['bidir_path%d' % n] = _dir(n, [(i, i + 1) for i in range(n - 1)] + [(i + 1, i) for i in range(n - 1)])
        g['outstar%d' % n] = _dir(n, [(0, i) for i in range(1, n)])
        g['instar%d' % n] = _dir(n, [(i, n - 1) for i in range(n - 1)])
        g['transitive%d' % n] = _dir(n, [(i, j) for i in range(n) for j in range(i + 1, n)])
        g['source_sink%d' % n] = _dir(n, [(0, 1), (0, 2), (1, 3), (2, 3), (3, 4), (4, 5), (5, 3)] + [(5, n - 1)])
    g['cyclic_tournament7'] = _dir(7, [(i, (i + k) % 7) for i in range(7) for k in (1, 2, 4)])
    g['two_dcycles_shared7'] = _dir(7, [(0, 1), (1, 2), (2, 3), (3, 0), (3, 4), (4, 5), (5, 6), (6, 3)])
    g['dag_diamonds7'] = _dir(7, [(0, 1), (0, 2), (1, 3), (2, 3), (3, 4), (3, 5), (4, 6), (5, 6)])
    g['reciprocal_on_path7'] = _dir(7, [(0, 1), (1, 2), (2, 1), (2, 3), (3, 4), (4, 3), (4, 5), (5, 6), (0, 6)])
    g['long_and_short8'] = _dir(8, [(i, i + 1) for i in range(7)] + [(0, 4), (4, 7), (7, 0)])
    return g


def large_undirected():
    """A few structured graphs on 100-200 nodes, where counts and iteration bounds leave the range small graphs
    exercise: a necklace of k diamonds has 2^k shortest paths between its end hubs (k = 64 reaches 2^64), a long path
    and cycle have diameters far above the node count of the exhaustive families, a grid has binomially many geodesics."""
    g = {}

    def necklace(k, extra=()):
        n = 3 * k + 1
        edges = []
        for d in range(k):
            h, a, b, h2 = 3 * d, 3 * d + 1, 3 * d + 2, 3 * d + 3
            edges += [(h, a), (h, b), (a, h2), (b, h2)]
        return n, edges
    n, e = necklace(64)
    g['necklace64_triangle_isolated197'] = _und(n + 4, e + [(n, n + 1), (n + 1, n + 2), (n, n + 2)])
    n, e = necklace(31)
    g['necklace31'] = _und(n, e)
    g['path200'] = _und(200, [(i, i + 1) for i in range(199)])
    g['cycle151'] = _und(151, [(i, (i + 1) % 151) for i in range(151)])
    g['grid12x12'] = _und(144, [(12 * r + c, 12 * r + c + 1) for r in range(12) for c in range(11)] +
                          [(12 * r + c, 12 * (r + 1) + c) for r in range(11) for c in range(12)])
    return sorted(g.items())


def beyond_256():
    """graphs with more than 256 nodes / degrees above 255 (narrow counters, CPython's small-integer cache)."""
    g = {'K260': _und(260, [(i, j) for i in range(260) for j in range(i + 1, 260)]),
         'star300': _und(300, [(0, i) for i in range(1, 300)]),
         'path300': _und(300, [(i, i + 1) for i in range(299)]),
         # a hub with 300 leaves and a 140-node chain: one very large degree together with very long geodesics
         'broom441': _und(441, [(0, i) for i in range(1, 301)] + [(0, 301)] + [(i, i + 1) for i in range(301, 440)])}
    return sorted(g.items())


def with_reversal(graphs):
    out = {}
    for k, A in graphs.items():
        out[k] = A
        r = np.arange(len(A))[::-1]
        B = A[np.ix_(r, r)]
        if not np.array_equal(A, B):
            out[k + '/rev'] = B
    return out


def weighted(A, scheme):
    """deterministic positive lengths/weights on the support of A."""
    n = len(A)
    i, j = np.indices((n, n))
    if scheme == 'len12':
        W = 1.0 + ((np.minimum(i, j) * 3 + np.maximum(i, j)) % 2)
    elif scheme == 'len123':
        W = 1.0 + ((np.minimum(i, j) + 2 * np.maximum(i, j)) % 3)
    elif scheme == 'neartie':
        W = np.where((np.minimum(i, j) + np.maximum(i, j)) % 3 == 0, 2.0 + 2.0 ** -20, 1.0 + ((i + j) % 2))
    elif scheme == 'dir12':
        W = 1.0 + ((i * 2 + j) % 2)
    else:
        raise ValueError(scheme)
    return A * W


UND = None
DIR = None


def und_list():
    global UND
    if UND is None:
        UND = sorted(with_reversal(undirected()).items())
    return UND


def dir_list():
    global DIR
    if DIR is None:
        DIR = sorted(with_reversal(directed()).items())
    return DIR


_FAM = {}


def family(tag):
    """[(label, matrix)] for tag in bin_und, bin_dir, len_und, len_dir, neartie_und, neartie_dir, bintree_und."""
    if tag == 'bintree_und' and tag not in _FAM:
        # every free tree on 8 and 9 nodes under the scan orders of bctmc/trees.py (3354 labelled trees)
        from bctmc import trees
        _FAM[tag] = trees.shape_family(8) + trees.shape_family(9)
    if tag == 'large_und' and tag not in _FAM:
        _FAM[tag] = large_undirected()
    if tag == 'xlarge_und' and tag not in _FAM:
        _FAM[tag] = large_undirected() + beyond_256()
    if tag == 'bintree8_und' and tag not in _FAM:
        from bctmc import trees
        _FAM[tag] = trees.shape_family(8)
    if tag not in _FAM:
        base = und_list() if tag.endswith('_und') else dir_list()
        kind = tag.split('_')[0]
        out = []
        for label, A in base:
            if kind == 'bin':
                out.append((label, A))
            elif kind == 'len':
                out.append((label + ':len12', weighted(A, 'len12' if tag.endswith('_und') else 'dir12')))
                out.append((label + ':len123', weighted(A, 'len123')))
            elif kind == 'neartie':
                out.append((label + ':neartie', weighted(A, 'neartie')))
        _FAM[tag] = out
    return _FAM[tag]
