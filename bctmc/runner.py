"""Runs one check module: plan -> parallel work -> merge -> evidence -> verdict."""
import contextlib
import importlib
import io
import json
import multiprocessing
import os
import random
import signal
import sys
import time
import traceback

from . import VERIF, REPO, findings
from .tally import Tally, jsonable, digest

if REPO == '/repo':
    EVIDENCE_DIR = os.path.join(VERIF, 'evidence')
    REPLAY_DIR = os.path.join(VERIF, 'replay')
else:
    # experiment against a scratch tree (BCT_REPO): never touch the committed evidence
    EVIDENCE_DIR = os.path.join(VERIF, 'scratch', 'evidence')
    REPLAY_DIR = os.path.join(VERIF, 'replay')


class Ctx(object):
    def __init__(self, tier, seed, workers):
        self.tier = tier
        self.seed = seed
        self.workers = workers
        self.thorough = tier == 'thorough'


class CaseTimeout(Exception):
    pass


def _alarm(signum, frame):
    raise CaseTimeout('wall-clock alarm')


class _Null(io.TextIOBase):
    def write(self, s):
        return len(s)


@contextlib.contextmanager
def quiet():
    old = sys.stdout
    sys.stdout = _Null()
    try:
        yield
    finally:
        sys.stdout = old


def guarded(fn, *args, **kw):
    """Call library code: ('ok', value) or ('exc', exception); stdout muted; alarm."""
    timeout = kw.pop('_timeout', 20)
    old_handler = signal.signal(signal.SIGALRM, _alarm)
    signal.setitimer(signal.ITIMER_REAL, timeout)
    try:
        with quiet():
            return ('ok', fn(*args, **kw))
    except CaseTimeout as e:
        return ('timeout', e)
    except Exception as e:  # noqa: BLE001 - an exception is an outcome
        return ('exc', e)
    finally:
        signal.setitimer(signal.ITIMER_REAL, 0)
        signal.signal(signal.SIGALRM, old_handler)


_MODULE = None


def _init_worker(modname):
    global _MODULE
    _MODULE = importlib.import_module(modname)


def _do_unit(unit):
    try:
        with quiet():
            t = _MODULE.work(unit)
        return ('ok', t)
    except BaseException:  # harness error, never a verdict
        return ('harness_error', 'unit %r\n%s' % (unit, traceback.format_exc()))


def run_check(prop, tier, seed, workers=None, replay=None):
    t0 = time.time()
    modname = 'checks.%s' % prop.lower()
    mod = importlib.import_module(modname)
    if replay:
        return _replay(mod, prop, replay)
    workers = workers or int(os.environ.get('VERIF_WORKERS', os.cpu_count() or 4))
    ctx = Ctx(tier, seed, workers)
    units = list(mod.plan(ctx))
    random.Random(seed).shuffle(units)       # order only; coverage is identical
    if hasattr(mod, 'unit_cost'):            # longest units first (stable), so the pool drains evenly
        units.sort(key=lambda u: -mod.unit_cost(u))
    total = Tally(prop)
    errors = []
    if workers <= 1 or len(units) <= 1:
        _init_worker(modname)
        results = map(_do_unit, units)
        pool = None
    else:
        mpctx = multiprocessing.get_context('fork')
        pool = mpctx.Pool(min(workers, len(units)), initializer=_init_worker,
                          initargs=(modname,))
        results = pool.imap_unordered(_do_unit, units, chunksize=1)
    try:
        for status, payload in results:
            if status == 'ok':
                total.merge(payload)
            else:
                errors.append(payload)
    finally:
        if pool is not None:
            pool.close()
            pool.join()
    if hasattr(mod, 'finish'):
        mod.finish(ctx, total)
    wall = time.time() - t0
    return _report(mod, prop, ctx, total, errors, wall, len(units))


def _report(mod, prop, ctx, total, errors, wall, nunits):
    if errors:
        sys.stderr.write('HARNESS ERROR in %s (%d unit(s)):\n%s\n' % (prop, len(errors), errors[0]))
        return 2
    known, unknown = {}, []
    for (function, clause, kf), g in sorted(total.groups.items(), key=lambda kv: str(kv[0])):
        if kf is None:
            unknown.append((function, clause, g))
        else:
            known.setdefault(kf, 0)
            known[kf] += g['count']
    cov = mod.coverage(ctx, total) if hasattr(mod, 'coverage') else {}
    cov.setdefault('evaluations', int(total.c.get('evaluations', 0)))
    cov.setdefault('distinct_nontrivial', int(total.c.get('nontrivial', 0)))
    cov.setdefault('rule', getattr(mod, 'RULE', ''))
    cov.setdefault('samples', [s for _, s in total.samples])
    exhaustive = not total.flags
    cov.setdefault('exhaustive', bool(exhaustive))
    cov['units'] = nunits
    cov['counters'] = {k: int(v) for k, v in sorted(total.c.items())}
    if total.mx:
        cov['gauges'] = {k: int(v) for k, v in sorted(total.mx.items())}
    if total.flags:
        cov['non_exhaustive_because'] = {k: int(v) for k, v in sorted(total.flags.items())}
    if total.notes:
        cov['notes'] = sorted(total.notes)
    cov['known_findings_hit'] = {k: int(v) for k, v in sorted(known.items())}
    cov['repo'] = REPO
    nviol = sum(g['count'] for _, _, g in unknown)
    ev = {
        'property_id': prop, 'tier': ctx.tier, 'seed': int(ctx.seed),
        'level': 'model_checking', 'coverage': cov,
        'assumptions': list(getattr(mod, 'ASSUMPTIONS', [])),
        'wall_s': round(wall, 2), 'violations': int(nviol),
    }
    os.makedirs(EVIDENCE_DIR, exist_ok=True)
    with open(os.path.join(EVIDENCE_DIR, '%s.json' % prop), 'w') as f:
        json.dump(jsonable(ev), f, indent=1, sort_keys=True)
        f.write('\n')
    for kf, n in sorted(known.items()):
        print('KNOWN-FINDING: property=%s %s %s (matched %d case(s) in this run)'
              % (prop, kf, findings.describe(kf), n))
    for function, clause, g in unknown:
        os.makedirs(REPLAY_DIR, exist_ok=True)
        for rec in g['examples'][:1]:
            path = os.path.join(REPLAY_DIR, '%s-%s-%s-%s.json' % (
                prop, function, clause, digest(rec)))
            with open(path, 'w') as f:
                json.dump(rec, f, indent=1, sort_keys=True)
            print('VIOLATION property=%s replay=%s' % (prop, path))
            print('  %s / %s: %d case(s); first: case=%s observed=%s expected=%s'
                  % (function, clause, g['count'],
                     _short(rec['case']), _short(rec['observed']), _short(rec['expected'])))
    c = total.c
    print('%s %s: evaluations=%d nontrivial=%d states=%d transitions=%d executions=%d '
          'violations=%d known=%d exhaustive=%s wall=%.1fs'
          % (prop, ctx.tier, cov['evaluations'], cov['distinct_nontrivial'],
             c.get('states', 0), c.get('transitions', 0), c.get('executions', 0),
             nviol, sum(known.values()), cov['exhaustive'], wall))
    return 1 if unknown else 0


def _short(x, n=300):
    s = json.dumps(x, sort_keys=True)
    return s if len(s) <= n else s[:n] + '...'


def _replay(mod, prop, path):
    with open(path) as f:
        rec = json.load(f)
    with quiet():
        t = mod.replay(rec)
    same = [(k, g) for k, g in t.groups.items()
            if k[0] == rec['function'] and k[1] == rec['clause']]
    if same:
        g = same[0][1]
        print('VIOLATION property=%s replay=%s' % (prop, path))
        print('  reproduced: %s' % _short(g['examples'][0], 600))
        return 1
    print('replay %s: the recorded case no longer violates %s/%s'
          % (path, rec['function'], rec['clause']))
    return 0
