"""Shared harness for the rewiring family (C01, C11, C06): input catalogues, call adapters,
role-based state invariants, and the per-configuration exploration driver."""
import itertools

import numpy as np

import bct
from . import smallscope as ss
from .explorer import Explorer, replay_answers, Unmodelled, HarnessError
from .runner import quiet
from .tally import Tally

EPS = 1e-9

# ---------------------------------------------------------------------------
# input catalogue
# ---------------------------------------------------------------------------


def und_from_edges(n, edges, weighted=False):
    A = np.zeros((n, n))
    for idx, (a, b) in enumerate(edges):
        A[a, b] = A[b, a] = (idx + 1.0) if weighted else 1.0
    return A


def dir_from_arcs(n, arcs, weighted=False):
    A = np.zeros((n, n))
    for idx, (a, b) in enumerate(arcs):
        A[a, b] = (idx + 1.0) if weighted else 1.0
    return A


def has_disjoint_pair(edges):
    return any(len({a, b, c, d}) == 4 for (a, b), (c, d) in itertools.combinations(edges, 2))


def und4_all():
    """Every labelled 4-node graph that contains two vertex-disjoint edges."""
    pairs = ss.und_pairs(4)
    out = []
    for r in range(2, 7):
        for es in itertools.combinations(pairs, r):
            if has_disjoint_pair(es):
                out.append(('und4_' + ''.join('%d%d' % e for e in es), 4, list(es)))
    return out


NAMED_UND = [
    ('path5', 5, [(0, 1), (1, 2), (2, 3), (3, 4)]),
    ('cycle5', 5, [(0, 1), (1, 2), (2, 3), (3, 4), (0, 4)]),
    ('star_plus_edge5', 5, [(0, 1), (0, 2), (0, 3), (3, 4)]),
    ('bowtie5', 5, [(0, 1), (1, 2), (0, 2), (2, 3), (3, 4), (2, 4)]),
    ('matching6', 6, [(0, 1), (2, 3), (4, 5)]),
    ('two_triangles_bridge6', 6, [(0, 1), (1, 2), (0, 2), (3, 4), (4, 5), (3, 5), (2, 3)]),
    ('tree_plus_chord5', 5, [(0, 1), (1, 2), (1, 3), (3, 4), (0, 2)]),
    ('path6', 6, [(0, 1), (1, 2), (2, 3), (3, 4), (4, 5)]),
]


def dir4_all(min_arcs, max_arcs):
    pairs = ss.dir_pairs(4)
    out = []
    for r in range(min_arcs, max_arcs + 1):
        for arcs in itertools.combinations(pairs, r):
            if has_disjoint_pair(arcs):
                out.append(('dir4_' + ''.join('%d%d' % a for a in arcs), 4, list(arcs)))
    return out


NAMED_DIR = [
    ('dcycle5_chord', 5, [(0, 1), (1, 2), (2, 3), (3, 4), (4, 0), (0, 2)]),
    ('dcycle5', 5, [(0, 1), (1, 2), (2, 3), (3, 4), (4, 0)]),
    ('two_dtriangles_shared5', 5, [(0, 1), (1, 2), (2, 0), (2, 3), (3, 4), (4, 2)]),
    ('dcycle4_recip', 4, [(0, 1), (1, 2), (2, 3), (3, 0), (1, 0), (3, 2)]),
    ('dcycle6', 6, [(0, 1), (1, 2), (2, 3), (3, 4), (4, 5), (5, 0)]),
]


def budget_itr(iters, k):
    """itr such that int(itr * k) == iters for the routines that accept fractional itr."""
    if iters == 0:
        return 0
    return iters / float(k) + EPS


# ---------------------------------------------------------------------------
# call adapters
# ---------------------------------------------------------------------------

LATTICE = ('latmio_und', 'latmio_und_connected', 'latmio_dir', 'latmio_dir_connected')
UNDIRECTED = ('randmio_und', 'randmio_und_connected', 'latmio_und', 'latmio_und_connected',
              'randomize_graph_partial_und', 'randomizer_bin_und', 'randmio_und_signed')


def edge_count(fn, W):
    if fn in UNDIRECTED:
        return int(np.count_nonzero(np.tril(W)))
    return int(np.count_nonzero(W))


def make_call(cfg):
    fn = cfg['fn']
    f = getattr(bct, fn)
    W = np.array(cfg['W'], dtype=float)        # order='K': keeps a Fortran-ordered input Fortran-ordered
    p = cfg.get('params', {})
    if fn in LATTICE:
        D = None if p.get('D') is None else np.array(p['D'], dtype=p.get('D_dtype') or float)
        itr = int(p['itr'])
        return lambda rng: f(W.copy(order='K'), itr, D=None if D is None else D.copy(), seed=rng)
    if fn == 'randomize_graph_partial_und':
        B = np.array(p['B'], dtype=float)
        ms = int(p['maxswap'])
        return lambda rng: f(W.copy(order='K'), B.copy(), ms, seed=rng)
    if fn == 'randomizer_bin_und':
        alpha = float(p['alpha'])
        return lambda rng: f(W.copy(order='K'), alpha, seed=rng)
    if fn in ('null_model_und_sign', 'null_model_dir_sign'):
        n = len(W)
        bs = budget_itr(int(p['bin_iters']), n * (n - 1) // 2)   # forwarded to randmio_und_signed as itr
        if p.get('dir_rewirer'):                                  # once the dir variant uses randmio_dir_signed
            bs = budget_itr(int(p['bin_iters']), n * (n - 1))
        wf = p['wei_freq']
        return lambda rng: f(W.copy(order='K'), bin_swaps=bs, wei_freq=wf, seed=rng)
    if fn == 'randmio_und_signed':
        itr = budget_itr(int(p['iters']), len(W) * (len(W) - 1) // 2)
    elif fn == 'randmio_dir_signed':
        itr = budget_itr(int(p['iters']), len(W) * (len(W) - 1))
    else:
        itr = budget_itr(int(p['iters']), edge_count(fn, W)) if 'iters' in p else p['itr']
    return lambda rng: f(W.copy(order='K'), itr, seed=rng)


def unit_points_for(cfg):
    if cfg['fn'] == 'randomizer_bin_und':
        a = float(cfg['params']['alpha'])
        # representatives on both sides of `> alpha` and of `> .5`
        pts = {0.25, 0.75}
        if a - 0.125 > 0:
            pts.add(a - 0.125)
        if a + 0.125 < 1:
            pts.add(a + 0.125)
        return tuple(sorted(pts))   # strictly inside (0,1), one on each side of alpha where possible
    return (0.25, 0.75)


# ---------------------------------------------------------------------------
# exploration of one configuration
# ---------------------------------------------------------------------------


def find_frame(frames, name):
    for f in frames:
        if f.f_code.co_name == name:
            return f
    return None


def explore_config(prop, cfg, judge, invariant=None, max_executions=300000, prune=True,
                   horizon=2000, sample_every=0):
    """Explore every generator answer sequence of cfg; judge(t, cfg, status, value, case_fn)
    is called on every completed execution and returns True when it recorded a violation."""
    t = Tally(prop)
    call = make_call(cfg)
    outcomes = set()

    def case_for(trace):
        return {'config': cfg, 'answers': list(trace)}

    def on_complete(status, value, trace):
        if status == 'exc' and isinstance(value, Unmodelled):
            t.flags['unmodelled_draw'] += 1
            return False
        bad = judge(t, cfg, status, value, lambda: case_for(trace))
        if status == 'ok':
            try:
                outcomes.add(repr([np.asarray(v).tolist() for v in (value if isinstance(value, tuple) else (value,))]))
            except Exception:
                pass
        if not bad and len(t.samples) < 1 and len(trace) >= 6 and status == 'ok':
            t.sample({'fn': cfg['fn'], 'graph': cfg['tag'], 'W': cfg['W'], 'params': {k: v for k, v in cfg.get('params', {}).items() if k not in ('B', 'D')},
                      'answers': list(trace)[:40], 'returned': value[0] if isinstance(value, tuple) else value},
                     order=-len(trace) * 1000 + hash(cfg['tag']) % 1000)
        return bad

    inv = None
    if invariant is not None:
        def inv(frames, trace):
            invariant(t, cfg, frames, lambda: case_for(trace))
    ex = Explorer(call, unit_points=unit_points_for(cfg), prune=prune, invariant=inv,
                  max_executions=max_executions, horizon=horizon,
                  max_seconds=600 if max_executions <= 400000 else 3000)
    with quiet():
        st = ex.explore(on_complete)
    t.c['configs'] += 1
    t.c['evaluations'] += st['completed']
    t.c['executions'] += st['executions']
    t.c['states'] += st['states']
    t.c['transitions'] += st['transitions']
    t.c['pruned_executions'] += st['pruned']
    t.c['distinct_outcomes'] += len(outcomes)
    if len(outcomes) >= 2:
        t.c['nontrivial'] += 1
    t.gauge('max_depth', st['max_depth'])
    t.gauge('max_states_in_one_config', st['states'])
    for k in ('horizon_hits', 'timeouts', 'opaque_states', 'unmodelled_draws'):
        if st[k]:
            t.flags[k] += st[k]
    if st['capped']:
        t.flags['execution_cap_hit'] += 1
        t.note('execution/time cap hit in %s %s %r (%d states)' % (cfg['fn'], cfg['tag'], {k: v for k, v in cfg.get('params', {}).items() if k not in ('B', 'D')}, st['states']))
    return t


def replay_case(prop, rec, judge, invariant=None):
    t = Tally(prop)
    case = rec['case']
    cfg = case['config']
    cfg = dict(cfg, W=np.array(cfg['W'], dtype=float))
    call = make_call(cfg)
    at = None
    if invariant is not None:
        def at(frames, trace):
            if frames:
                invariant(t, cfg, frames, lambda: case)
    with quiet():
        status, value, _ = replay_answers(call, case['answers'], unit_points=unit_points_for(cfg), at_choice=at)
    if status != 'cut':
        judge(t, cfg, status, value, lambda: case)
    return t
