"""bctmc - bounded exhaustive exploration ("model checking") machinery for bctpy.

Importing this package puts the repository under test on sys.path (always the
current working tree of /repo unless BCT_REPO overrides it for experiments on a
scratch worktree) and silences numpy warnings.  See /verif/DESIGN.md.
"""
import os
import sys

for _v in ('OMP_NUM_THREADS', 'OPENBLAS_NUM_THREADS', 'MKL_NUM_THREADS',
           'NUMEXPR_NUM_THREADS'):
    os.environ[_v] = '1'
os.environ.setdefault('DUECREDIT_ENABLE', 'no')
sys.dont_write_bytecode = True

REPO = os.path.realpath(os.environ.get('BCT_REPO', '/repo'))
VERIF = os.path.dirname(os.path.dirname(os.path.abspath(__file__)))
if REPO not in sys.path:
    sys.path.insert(0, REPO)

import warnings  # noqa: E402
warnings.simplefilter('ignore')
import numpy as np  # noqa: E402
np.seterr(all='ignore')


def import_bct():
    import bct
    here = os.path.realpath(os.path.dirname(bct.__file__))
    if not here.startswith(REPO + os.sep):
        raise RuntimeError('bct imported from %s, expected under %s' % (here, REPO))
    return bct
