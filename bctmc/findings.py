"""Known findings: committed list of genuine defects that are recorded, not repaired.

/verif/known_findings.json is read only - never written at run time.  An entry
suppresses exactly the violations that match its (property, function, clause)
and every key of its "where" dict against the violation's tags, so a different
function, clause or tag combination failing under the same property is still a
VIOLATION.  "fixed" entries are documentation and suppress nothing.
"""
import json
import os

_PATH = os.path.join(os.path.dirname(os.path.dirname(os.path.abspath(__file__))),
                     'known_findings.json')
_cache = None


def load():
    global _cache
    if _cache is None:
        if os.path.exists(_PATH):
            with open(_PATH) as f:
                data = json.load(f)
        else:
            data = {'findings': [], 'fixed': []}
        _cache = data
    return _cache


def match(rec):
    for kf in load().get('findings', []):
        if kf['property'] != rec['property']:
            continue
        if kf['function'] != rec['function']:
            continue
        if kf.get('clause') not in (None, rec['clause']):
            continue
        tags = rec.get('tags') or {}
        where = kf.get('where') or {}
        if all(tags.get(k) == v for k, v in where.items()):
            return kf['id']
    return None


def describe(kf_id):
    for kf in load().get('findings', []):
        if kf['id'] == kf_id:
            return kf.get('what', '')
    return ''
