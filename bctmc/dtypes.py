"""The element-type dimension of an input: the same matrix as int64, int32, uint8, bool (0/1 only) arrays, and as
float64 with every zero stored as -0.0.

Rule used by the engine-B checks: the float64 result is the one compared with the oracle; for every other
element type the routine must return the same values (tolerance 1e-9; 1e-5 for bool and uint8, which numpy's
linear algebra promotes to single precision).  Integer types must not raise.  A boolean matrix may be rejected with a TypeError (numpy
defines no subtraction / sign on booleans, and several routines are arithmetic on their argument); any other
exception, or a returned value that differs, is a violation.
"""
import numpy as np

from bctmc.runner import guarded


def variants(A):
    A = np.asarray(A)
    integral = bool(np.all(A == np.round(A)))
    out = [('negzero', np.where(A == 0, -0.0, A.astype(float)))]       # absent connections stored as -0.0 (e.g. W * (W > 0))
    if integral:
        out.append(('int64', A.astype(np.int64)))
        out.append(('int32', A.astype(np.int32)))
        if A.min() >= 0 and A.max() <= 255:
            out.append(('uint8', A.astype(np.uint8)))
        if set(np.unique(A).tolist()) <= {0.0, 1.0}:
            out.append(('bool', A.astype(bool)))
    return out


def _flat(o):
    if isinstance(o, (tuple, list)):
        r = []
        for x in o:
            r += _flat(x)
        return r
    if isinstance(o, dict):
        return [repr(sorted(o.items()))]
    return [np.asarray(o, dtype=float)]


def same(a, b, tol):
    fa, fb = _flat(a), _flat(b)
    if len(fa) != len(fb):
        return False
    for x, y in zip(fa, fb):
        if isinstance(x, str) or isinstance(y, str):
            if x != y:
                return False
            continue
        if x.shape != y.shape:
            return False
        with np.errstate(all='ignore'):
            ok = (np.isnan(x) & np.isnan(y)) | (x == y) | (np.abs(x - y) <= tol * np.maximum(1.0, np.abs(y)))
        if not np.all(ok):
            return False
    return True


def check(t, fname, f, A, case, extra_args=()):
    """f(A, *extra_args) on float64 versus every other element type; returns number of comparisons made."""
    st0, base = guarded(f, np.array(A, dtype=float), *extra_args)
    if st0 != 'ok':
        return 0
    done = 0
    for tag, V in variants(A):
        before = V.copy()
        st, out = guarded(f, V, *extra_args)
        t.c['element_type_evaluations'] += 1
        done += 1
        c = dict(case, element_type=tag)
        if st != 'ok':
            if tag == 'bool' and isinstance(out, TypeError):
                t.c['bool_rejected_with_TypeError'] += 1
                continue
            t.viol(fname, 'element_type:raises', c, observed=out, tags={'element_type': tag})
            continue
        if not same(out, base, 1e-5 if tag in ('bool', 'uint8') else 1e-9):
            t.viol(fname, 'element_type:same_values', c, observed=out, expected=base, tags={'element_type': tag})
        if not np.array_equal(V, before):
            t.viol(fname, 'element_type:argument_unchanged', c, observed=V, expected=before, tags={'element_type': tag})
    return done


def check_selfloops(t, fname, f, A, case):
    """path-based quantities between distinct nodes do not see self-connections: f(A) == f(A + diagonal)."""
    st0, base = guarded(f, np.array(A, dtype=float))
    if st0 != 'ok':
        return
    Ad = np.array(A, dtype=float)
    np.fill_diagonal(Ad, [1.0, 0.0, 2.0, 1.0, 3.0, 0.5][:len(Ad)])
    st, out = guarded(f, Ad.copy())
    t.c['self_connection_evaluations'] += 1
    c = dict(case, variant='self_connections', A=Ad)
    if st != 'ok':
        t.viol(fname, 'self_connections:raises', c, observed=out)
    elif not same(out, base, 1e-9):
        t.viol(fname, 'self_connections:change_nothing', c, observed=out, expected=base)


def work_unit(prop, funcs, unit, selfloop_invariant=()):
    """unit = ('etype', directed, n, alphabet, a, b); funcs = [(name, callable(A), predicate(A) or None)]."""
    from bctmc import smallscope as ss
    from bctmc.tally import Tally
    _, directed, n, alpha, a, b = unit
    t = Tally(prop)
    for idx in range(a, b):
        A = ss.dir_graph(n, alpha, idx) if directed else ss.und_graph(n, alpha, idx)
        for name, f, pred in funcs:
            if name in selfloop_invariant and (pred is None or pred(A, directed)):
                check_selfloops(t, name.split('[')[0], f, A, {'family': 'element_types', 'directed': directed, 'n': n,
                                                              'alphabet': list(alpha), 'index': idx, 'call': name})
        for name, f, pred in funcs:
            if pred is not None and not pred(A, directed):
                continue
            k = check(t, name.split('[')[0], f, A, {'family': 'element_types', 'directed': directed, 'n': n,
                                                    'alphabet': list(alpha), 'index': idx, 'call': name, 'A': A})
            t.c['evaluations'] += k
            if k:
                t.c['nontrivial'] += 1
    return t


def units(families, nchunks=8):
    from bctmc import smallscope as ss
    out = []
    for directed, n, alpha in families:
        tot = ss.dir_count(n, alpha) if directed else ss.und_count(n, alpha)
        for (a, b) in ss.ranges(tot, nchunks):
            out.append(('etype', directed, n, tuple(alpha), a, b))
    return out


def replay(prop, funcs, case):
    from bctmc.tally import Tally
    t = Tally(prop)
    A = np.array(case['A'], dtype=float)
    for name, f, pred in funcs:
        if name == case['call']:
            if case.get('variant') == 'self_connections':
                B = A.copy()
                np.fill_diagonal(B, 0)
                check_selfloops(t, name.split('[')[0], f, B, {k: v for k, v in case.items() if k not in ('variant', 'A')})
            else:
                check(t, name.split('[')[0], f, A, {k: v for k, v in case.items() if k != 'element_type'})
    return t


STD_FAMILIES = [(True, 3, (0, 1)), (True, 3, (0, 1, 2)), (False, 4, (0, 1, 2)), (False, 5, (0, 1))]
