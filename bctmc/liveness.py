"""Backward live-variable analysis on CPython 3.12 bytecode.

liveness(code) -> (after, always, tail)
  after[offset]  : locals that may be read before being overwritten after the call instruction
                   owning `offset` returns (offset = frame.f_lasti of a frame suspended in a call;
                   f_lasti points at the last inline-cache slot of CALL, so every slot is mapped to
                   its owning instruction)
  always         : cell/free variables and FOR_ITER targets (witnesses of hidden iterator progress)
  tail           : offsets of CALLs immediately followed by RETURN_VALUE (pure tail calls)
Used by bctmc.explorer to drop dead locals from state keys (DESIGN.md 1.3).
"""
import dis, functools
USE = {'LOAD_FAST', 'LOAD_FAST_CHECK', 'LOAD_FAST_AND_CLEAR', 'DELETE_FAST'}
DEF = {'STORE_FAST'}
NOFALL = {'RETURN_VALUE', 'RETURN_CONST', 'RAISE_VARARGS', 'RERAISE', 'JUMP_FORWARD', 'JUMP_BACKWARD', 'JUMP_BACKWARD_NO_INTERRUPT', 'JUMP'}
@functools.lru_cache(maxsize=None)
def liveness(code):
    ins = list(dis.get_instructions(code))
    idx = {i.offset: n for n, i in enumerate(ins)}
    succ = [[] for _ in ins]
    for n, i in enumerate(ins):
        if i.opname not in NOFALL and n + 1 < len(ins):
            succ[n].append(n + 1)
        if i.opcode in dis.hasjrel or i.opcode in dis.hasjabs or 'JUMP' in i.opname or i.opname in ('FOR_ITER', 'SEND'):
            if isinstance(i.argval, int) and i.argval in idx:
                succ[n].append(idx[i.argval])
    # exception handlers: any instruction in a protected range may jump to handler
    for e in dis._parse_exception_table(code):
        h = idx.get(e.target)
        if h is None: continue
        for n, i in enumerate(ins):
            if e.start <= i.offset < e.end:
                succ[n].append(h)
    live_in = [frozenset() for _ in ins]
    changed = True
    while changed:
        changed = False
        for n in range(len(ins) - 1, -1, -1):
            out = frozenset().union(*[live_in[s] for s in succ[n]]) if succ[n] else frozenset()
            i = ins[n]
            if i.opname in DEF:
                new = out - {i.argval}
            elif i.opname in USE:
                new = out | {i.argval}
            else:
                new = out
            if new != live_in[n]:
                live_in[n] = new; changed = True
    # live *after* the call instruction at offset o == live_in of next instruction(s)
    after = {}
    for n, i in enumerate(ins):
        after[i.offset] = frozenset().union(*[live_in[s] for s in succ[n]]) if succ[n] else frozenset()
    cells = set(code.co_cellvars) | set(code.co_freevars)
    loopvars = set()
    for n, i in enumerate(ins):
        if i.opname == 'FOR_ITER':
            m = n + 1
            if ins[m].opname == 'UNPACK_SEQUENCE':
                cnt = ins[m].arg; m += 1
                for q in range(cnt):
                    if ins[m + q].opname == 'STORE_FAST': loopvars.add(ins[m + q].argval)
            elif ins[m].opname == 'STORE_FAST':
                loopvars.add(ins[m].argval)
    # f_lasti of a frame suspended in a call points at the last inline-cache slot of the CALL
    owner = {}
    for n, i in enumerate(ins):
        end = ins[n + 1].offset if n + 1 < len(ins) else i.offset + 2
        for o in range(i.offset, end, 2):
            owner[o] = i.offset
    after = {o: after[owner[o]] for o in owner}
    tail = set()
    for n, i in enumerate(ins):
        if i.opname == 'CALL' and n + 1 < len(ins) and ins[n + 1].opname == 'RETURN_VALUE':
            tail.update(o for o in owner if owner[o] == i.offset)
    return after, cells | loopvars, tail
if __name__ == '__main__':
    import sys
    sys.path.insert(0, '/repo')
    import bct, warnings
    after, cells, tail = liveness(bct.randmio_und.__code__)
    for i in dis.get_instructions(bct.randmio_und.__code__):
        if i.opname == 'CALL':
            print(i.offset, i.positions.lineno, sorted(after[i.offset]))
