"""Complete enumerations of small inputs, addressable by index so that work can
be cut into ranges: graphs, digraphs, set partitions, node permutations."""
import itertools

import numpy as np


def und_pairs(n):
    return [(i, j) for i in range(n) for j in range(i + 1, n)]


def dir_pairs(n):
    return [(i, j) for i in range(n) for j in range(n) if i != j]


def und_count(n, alphabet):
    return len(alphabet) ** (n * (n - 1) // 2)


def dir_count(n, alphabet):
    return len(alphabet) ** (n * (n - 1))


def und_graph(n, alphabet, idx):
    """Symmetric zero-diagonal matrix number idx (digits base |alphabet| over pairs)."""
    A = np.zeros((n, n))
    b = len(alphabet)
    for (i, j) in und_pairs(n):
        idx, d = divmod(idx, b)
        A[i, j] = A[j, i] = alphabet[d]
    return A


def dir_graph(n, alphabet, idx):
    A = np.zeros((n, n))
    b = len(alphabet)
    for (i, j) in dir_pairs(n):
        idx, d = divmod(idx, b)
        A[i, j] = alphabet[d]
    return A


def und_index(A, alphabet):
    n = len(A)
    pos = {float(a): k for k, a in enumerate(alphabet)}
    idx, mul = 0, 1
    for (i, j) in und_pairs(n):
        idx += pos[float(A[i, j])] * mul
        mul *= len(alphabet)
    return idx


def dir_index(A, alphabet):
    n = len(A)
    pos = {float(a): k for k, a in enumerate(alphabet)}
    idx, mul = 0, 1
    for (i, j) in dir_pairs(n):
        idx += pos[float(A[i, j])] * mul
        mul *= len(alphabet)
    return idx


def ranges(total, nchunks):
    """Cut range(total) into at most nchunks contiguous (start, stop) pieces."""
    nchunks = max(1, min(nchunks, total))
    step = -(-total // nchunks)
    return [(s, min(total, s + step)) for s in range(0, total, step)]


def set_partitions(n):
    """All set partitions of range(n) as restricted-growth label vectors (1-based)."""
    out = []

    def rec(prefix, mx):
        if len(prefix) == n:
            out.append(tuple(prefix))
            return
        for lab in range(1, mx + 2):
            rec(prefix + [lab], max(mx, lab))
    rec([], 0)
    return out


def perms(n):
    return [np.array(p) for p in itertools.permutations(range(n))]


def relabellings(ci):
    """A fixed finite family of injective relabellings of a 1..k label vector."""
    ci = np.asarray(ci, dtype=int)
    k = int(ci.max())
    fam = {
        'identity': ci.copy(),
        'zero_based': ci - 1,
        'reversed': k + 1 - ci,
        'tens': ci * 10,
        'sparse': ci * ci + 3,
        'large': ci + 10 ** 6,
        'float': ci.astype(float),
        'negative': ci - k - 2,
        'doubled': ci * 2,                     # does not start at 1 and has gaps
        'shift_to_n': ci + len(ci) - 1,        # some label equals the number of nodes
        'float_close': 1.0 + ci * 1e-9,      # distinct labels closer than common tolerances
        # labels at the extremes of a signed dtype (differences between neighbours overflow)
        'int8_extremes': np.array([-100, 100, 110, 120, 125, 126, 127][:max(k, 1)], dtype=np.int8)[ci - 1],
        'int64_extremes': np.array([-2 ** 62, 2 ** 62, 2 ** 62 + 1, 2 ** 62 + 2, 2 ** 62 + 3, 2 ** 62 + 4, 2 ** 62 + 5][:max(k, 1)],
                                   dtype=np.int64)[ci - 1],
    }
    if k <= 3:
        for p in itertools.permutations(range(1, k + 1)):
            if list(p) != list(range(1, k + 1)):
                fam['rename_' + ''.join(map(str, p))] = np.array([p[c - 1] for c in ci])
    return fam


def bfs_components(A):
    """Labels (0-based, by smallest member) of connected components of the
    undirected support of A (off-diagonal non-zeros, either direction)."""
    n = len(A)
    adj = (A != 0) | (A != 0).T
    lab = [-1] * n
    c = 0
    for s in range(n):
        if lab[s] >= 0:
            continue
        lab[s] = c
        stack = [s]
        while stack:
            u = stack.pop()
            for v in range(n):
                if v != u and adj[u, v] and lab[v] < 0:
                    lab[v] = c
                    stack.append(v)
        c += 1
    return lab


def is_connected(A):
    return len(set(bfs_components(A))) <= 1


def reach_closure(A):
    """Boolean reachability by >=1 step along non-zero cells (Warshall)."""
    n = len(A)
    R = (A != 0)
    R = R.copy()
    for k in range(n):
        R = R | (R[:, [k]] & R[[k], :])
    return R


def strongly_connected(A):
    n = len(A)
    R = reach_closure(A)
    return all(R[i, j] for i in range(n) for j in range(n) if i != j)
