"""Boring reference models, written from the definitions and independent of bct."""
import itertools

import numpy as np

INF = np.inf
TOL = 1e-9


def close(a, b, tol=TOL):
    a = np.asarray(a, dtype=float)
    b = np.asarray(b, dtype=float)
    if a.shape != b.shape:
        return False
    return bool(np.allclose(a, b, rtol=tol, atol=tol, equal_nan=True))


def lengths_matrix(L):
    """0 entries (no connection) -> inf; diagonal ignored."""
    L = np.asarray(L, dtype=float)
    M = np.where(L != 0, L, INF)
    np.fill_diagonal(M, INF)
    return M


def minplus(X, Y):
    return np.min(X[:, :, None] + Y[None, :, :], axis=1)


def exact_hop_lengths(M):
    """E[h-1][u,v] = min total length over walks u->v with exactly h edges, h=1..n-1
    (M: lengths with inf for absent connections, inf diagonal)."""
    n = len(M)
    E = [M.copy()]
    for _ in range(max(0, n - 2)):
        E.append(minplus(E[-1], M))
    return E


def shortest(M):
    """(D, E): D[u,v] = min path length for u != v (inf if none), diagonal 0."""
    n = len(M)
    E = exact_hop_lengths(M)
    D = np.full((n, n), INF)
    for Eh in E:
        D = np.minimum(D, Eh)
    np.fill_diagonal(D, 0)
    return D, E


def hop_sets(D, E, tol=TOL):
    """allowed[u][v] = set of h such that a walk with exactly h edges attains D[u,v]."""
    n = len(D)
    out = [[set() for _ in range(n)] for _ in range(n)]
    for h, Eh in enumerate(E, start=1):
        ok = np.isfinite(Eh) & (np.abs(Eh - D) <= tol * (1 + np.abs(D)))
        for u, v in zip(*np.where(ok)):
            if u != v:
                out[u][v].add(h)
    return out


def bfs_dist(A):
    """Hop distances by plain BFS from every source (inf when unreachable, 0 diagonal)."""
    n = len(A)
    nb = [[v for v in range(n) if v != u and A[u, v] != 0] for u in range(n)]
    D = np.full((n, n), INF)
    for s in range(n):
        D[s, s] = 0
        frontier = [s]
        d = 0
        while frontier:
            d += 1
            nxt = []
            for u in frontier:
                for v in nb[u]:
                    if D[s, v] == INF:
                        D[s, v] = d
                        nxt.append(v)
            frontier = nxt
    return D


def offdiag(n):
    return ~np.eye(n, dtype=bool)


def mean_offdiag(X, skip_inf=False):
    n = len(X)
    v = X[offdiag(n)]
    if skip_inf:
        v = v[np.isfinite(v)]
    if v.size == 0:
        return np.nan
    return float(np.mean(v))


def all_shortest_paths(M, D, s, t, tol=TOL):
    """Every simple path s->t whose length equals D[s,t] (lists of nodes)."""
    n = len(M)
    out = []
    target = D[s, t]
    if not np.isfinite(target):
        return out

    def rec(path, length):
        u = path[-1]
        if u == t:
            if abs(length - target) <= tol * (1 + abs(target)):
                out.append(list(path))
            return
        for v in range(n):
            if v in path or not np.isfinite(M[u, v]):
                continue
            nl = length + M[u, v]
            if nl > target + tol * (1 + abs(target)):
                continue
            path.append(v)
            rec(path, nl)
            path.pop()
    rec([s], 0.0)
    return out


def betweenness_ref(M):
    """Node and edge betweenness from enumeration of all minimum-length simple paths.
    M: lengths, inf = absent.  Returns (BC[n], EBC[n,n])."""
    n = len(M)
    D, _ = shortest(M)
    BC = np.zeros(n)
    EBC = np.zeros((n, n))
    for s in range(n):
        for t in range(n):
            if s == t or not np.isfinite(D[s, t]):
                continue
            paths = all_shortest_paths(M, D, s, t)
            sig = float(len(paths))
            for p in paths:
                for v in p[1:-1]:
                    BC[v] += 1.0 / sig
                for a, b in zip(p[:-1], p[1:]):
                    EBC[a, b] += 1.0 / sig
    return BC, EBC, D


def subsets(items):
    items = list(items)
    for r in range(len(items) + 1):
        for c in itertools.combinations(items, r):
            yield c
