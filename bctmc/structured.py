"""A RandomState whose every answer follows one of four fixed strategies - for inputs far beyond the
menus of the scripted generator (a permutation of 10^6 cells has no enumerable menu).  NOT exhaustive
over answers: it is the complete enumeration of a stated four-element set of answer strategies, used for
the large-size configurations of C20 where a size-triggered branch may sit.

strategy 0: lowest answers   (identity order, smallest integer, 0.0)
strategy 1: highest answers  (reversed order, largest integer, 0.999999)
strategy 2: spread answers   (rotation by a third, arithmetic progression of integers, golden-ratio sequence)
strategy 3: alternating      (evens then odds, alternating low/high integers, alternating 0.0 / 0.999999)
"""
import numpy as np

STRATEGIES = (0, 1, 2, 3)


class StructuredRandomState(np.random.RandomState):
    def __init__(self, strategy):
        super(StructuredRandomState, self).__init__(12345)
        self._s = strategy
        self.draws = 0

    def _ints(self, span, count):
        self.draws += 1
        k = np.arange(count, dtype=np.int64)
        if self._s == 0:
            return np.zeros(count, dtype=np.int64)
        if self._s == 1:
            return np.full(count, span - 1, dtype=np.int64)
        if self._s == 2:
            return (k * 7919 + self.draws) % span
        return np.where(k % 2 == 0, 0, span - 1).astype(np.int64)

    def _units(self, count):
        self.draws += 1
        k = np.arange(count, dtype=float)
        if self._s == 0:
            return np.zeros(count)
        if self._s == 1:
            return np.full(count, 0.999999)
        if self._s == 2:
            return (k * 0.6180339887498949 + 0.1 * self.draws) % 1.0
        return np.where(k % 2 == 0, 0.0, 0.999999)

    def permutation(self, x):
        self.draws += 1
        base = np.arange(x) if isinstance(x, (int, np.integer)) else np.asarray(x)
        n = len(base)
        if self._s == 0:
            p = np.arange(n)
        elif self._s == 1:
            p = np.arange(n)[::-1]
        elif self._s == 2:
            p = np.roll(np.arange(n), -(n // 3))
        else:
            p = np.concatenate([np.arange(0, n, 2), np.arange(1, n, 2)])
        return base[p].copy()

    def shuffle(self, x):
        p = self.permutation(len(x))
        vals = [x[i] for i in p]
        for i, v in enumerate(vals):
            x[i] = v

    def randint(self, low, high=None, size=None, dtype=int):
        if high is None:
            low, high = 0, low
        span = int(high) - int(low)
        if span <= 0:
            raise ValueError('low >= high')
        if size is None:
            return int(low) + int(self._ints(span, 1)[0])
        shape = (size,) if isinstance(size, (int, np.integer)) else tuple(size)
        return (int(low) + self._ints(span, int(np.prod(shape)))).reshape(shape)

    def random_integers(self, low, high=None, size=None):
        if high is None:
            low, high = 1, low
        return self.randint(low, high + 1, size)

    def choice(self, a, size=None, replace=True, p=None):
        pool = np.arange(a) if isinstance(a, (int, np.integer)) else np.asarray(a)
        n = len(pool)
        if size is None:
            return pool[int(self._ints(n, 1)[0])]
        shape = (size,) if isinstance(size, (int, np.integer)) else tuple(size)
        count = int(np.prod(shape))
        if replace:
            return pool[self._ints(n, count)].reshape(shape)
        return self.permutation(pool)[:count].reshape(shape)

    def random_sample(self, size=None):
        if size is None or size == ():
            return float(self._units(1)[0])
        shape = (size,) if isinstance(size, (int, np.integer)) else tuple(size)
        return self._units(int(np.prod(shape))).reshape(shape)

    random = random_sample
    ranf = random_sample
    sample = random_sample

    def rand(self, *shape):
        return self.random_sample(shape if shape else None)

    def uniform(self, low=0.0, high=1.0, size=None):
        return low + (high - low) * self.random_sample(size)
