"""Result accumulation shared by every check (picklable, mergeable)."""
import collections
import hashlib
import json

import numpy as np

from . import findings

EXAMPLES_PER_GROUP = 3
MAX_SAMPLES = 4


def jsonable(x, depth=0):
    """Turn arrays / numpy scalars / tuples into plain JSON values."""
    if isinstance(x, np.ndarray):
        if x.dtype.kind in 'fc':
            return jsonable(x.tolist(), depth + 1)
        return x.tolist()
    if isinstance(x, (np.integer,)):
        return int(x)
    if isinstance(x, (np.floating, float)):
        x = float(x)
        if x != x:
            return 'nan'
        if x in (float('inf'), float('-inf')):
            return 'inf' if x > 0 else '-inf'
        return x
    if isinstance(x, (np.bool_,)):
        return bool(x)
    if isinstance(x, (list, tuple)):
        return [jsonable(v, depth + 1) for v in x]
    if isinstance(x, dict):
        return {str(k): jsonable(v, depth + 1) for k, v in x.items()}
    if isinstance(x, (set, frozenset)):
        return sorted(jsonable(v, depth + 1) for v in x)
    if x is None or isinstance(x, (int, str, bool)):
        return x
    if isinstance(x, BaseException):
        return '%s: %s' % (type(x).__name__, x)
    return repr(x)


class Tally(object):
    """Counts, violation groups and samples of one unit of work (or a merge)."""

    def __init__(self, prop):
        self.prop = prop
        self.c = collections.Counter()       # additive counters
        self.groups = {}                     # (function, clause, kf) -> {count, examples}
        self.samples = []                    # (order_key, sample)
        self.notes = set()                   # free-text remarks (e.g. uncovered functions)
        self.flags = collections.Counter()   # things that make the run non-exhaustive
        self.mx = {}                         # max-merged gauges

    # -- recording -------------------------------------------------------
    def viol(self, function, clause, case, observed=None, expected=None, tags=None,
             detail=None):
        rec = {'property': self.prop, 'function': function, 'clause': clause,
               'case': jsonable(case), 'observed': jsonable(observed),
               'expected': jsonable(expected), 'tags': jsonable(tags or {})}
        if detail is not None:
            rec['detail'] = jsonable(detail)
        kf = findings.match(rec)
        key = (function, clause, kf)
        g = self.groups.setdefault(key, {'count': 0, 'examples': []})
        g['count'] += 1
        if len(g['examples']) < EXAMPLES_PER_GROUP:
            g['examples'].append(rec)
        self.c['violations_total'] += 1
        return rec

    def sample(self, obj, order=0):
        if len(self.samples) < MAX_SAMPLES:
            self.samples.append((order, jsonable(obj)))

    def gauge(self, name, value):
        self.mx[name] = max(self.mx.get(name, value), value)

    def note(self, text):
        self.notes.add(text)

    # -- merging ---------------------------------------------------------
    def merge(self, other):
        self.c.update(other.c)
        self.flags.update(other.flags)
        self.notes |= other.notes
        for k, v in other.mx.items():
            self.gauge(k, v)
        for key, g in other.groups.items():
            mine = self.groups.setdefault(key, {'count': 0, 'examples': []})
            mine['count'] += g['count']
            mine['examples'] = sorted(
                mine['examples'] + g['examples'],
                key=lambda r: json.dumps(r, sort_keys=True))[:EXAMPLES_PER_GROUP]
        self.samples = sorted(self.samples + other.samples,
                              key=lambda s: (s[0], json.dumps(s[1], sort_keys=True)))[:MAX_SAMPLES]
        return self


def digest(obj):
    return hashlib.blake2b(json.dumps(jsonable(obj), sort_keys=True).encode(),
                           digest_size=6).hexdigest()
