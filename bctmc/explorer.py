"""Engine A (rngmc): explicit-state exploration of every answer sequence of the random
generator, on the real library code.  See DESIGN.md section 1.

A ScriptedRandomState is a genuine np.random.RandomState (so bct's get_rng passes it
through unchanged) whose every draw is a choice point answered by the Explorer.
"""
import hashlib
import heapq
import itertools
import signal
import sys
import time
import weakref

import numpy as np

from . import REPO
from .liveness import liveness

REPO_PREFIX = REPO + '/bct'


class Abort(BaseException):
    """Raised out of a draw to cut an execution that reached an already-known state."""


class ExecTimeout(BaseException):
    pass


class HarnessError(Exception):
    """Nondeterministic replay or other internal inconsistency: never a verdict."""


class Unmodelled(Exception):
    pass


_PERMS = {}


def perms(n):
    if n not in _PERMS:
        _PERMS[n] = list(itertools.permutations(range(n)))
    return _PERMS[n]


_SUBSET = {}


def perm_subset(n):
    """A fixed, stated subset of the n! orders for menus beyond PERM_LIMIT: every rotation of the identity and of the
    reversal, evens-then-odds and its reverse (2n+2 orders).  NOT exhaustive over answers; runs that use it say so."""
    if n not in _SUBSET:
        ident = list(range(n))
        out = []
        for base in (ident, ident[::-1]):
            for r in range(n):
                out.append(tuple(base[r:] + base[:r]))
        eo = ident[::2] + ident[1::2]
        out += [tuple(eo), tuple(eo[::-1])]
        seen, uniq = set(), []
        for p in out:
            if p not in seen:
                seen.add(p)
                uniq.append(p)
        _SUBSET[n] = uniq
    return _SUBSET[n]


PERM_LIMIT = 8


class ScriptedRandomState(np.random.RandomState):
    def __init__(self, ex):
        super(ScriptedRandomState, self).__init__(12345)
        self._ex = ex

    # -- helpers -----------------------------------------------------------
    def _vector(self, kind, base, count, decode_digit, shape):
        total = base ** count
        idx = self._ex.choice(kind, total)
        out = []
        for _ in range(count):
            idx, d = divmod(idx, base)
            out.append(decode_digit(d))
        arr = np.array(out).reshape(shape)
        self._ex.track(arr)
        self._ex.note_value(kind, arr)
        return arr

    # -- integers ----------------------------------------------------------
    def randint(self, low, high=None, size=None, dtype=int):
        if high is None:
            low, high = 0, low
        low, high = int(low), int(high)
        span = high - low
        if span <= 0:
            raise ValueError('low >= high')
        if size is None:
            return low + self._ex.choice('randint', span)
        shape = (size,) if isinstance(size, (int, np.integer)) else tuple(size)
        count = int(np.prod(shape))
        return self._vector('randint_vec', span, count, lambda d: low + d, shape)

    def random_integers(self, low, high=None, size=None):
        if high is None:
            low, high = 1, low
        return self.randint(low, high + 1, size)

    # -- permutations --------------------------------------------------------
    def permutation(self, x):
        if isinstance(x, (int, np.integer)):
            n, base = int(x), None
        else:
            base = np.asarray(x)
            n = len(base)
        if n > PERM_LIMIT:
            if not getattr(self._ex, 'allow_perm_subset', False):
                raise Unmodelled('permutation(%d) exceeds the menu bound %d!' % (n, PERM_LIMIT))
            ps = perm_subset(n)
            self._ex.perm_subset_used = getattr(self._ex, 'perm_subset_used', 0) + 1
        else:
            ps = perms(n)
        idx = self._ex.choice('permutation', len(ps))
        p = np.array(ps[idx], dtype=int)
        out = p if base is None else base[p]
        self._ex.track(out)
        self._ex.note_value('permutation', out)
        return out

    def shuffle(self, x):
        n = len(x)
        if n > PERM_LIMIT:
            raise Unmodelled('shuffle(%d) exceeds the menu bound' % n)
        ps = perms(n)
        idx = self._ex.choice('shuffle', len(ps))
        vals = [x[i] for i in ps[idx]]
        for i, v in enumerate(vals):
            x[i] = v

    def choice(self, a, size=None, replace=True, p=None):
        pool = np.arange(a) if isinstance(a, (int, np.integer)) else np.asarray(a)
        n = len(pool)
        if size is None:
            return pool[self._ex.choice('choice', n)]
        shape = (size,) if isinstance(size, (int, np.integer)) else tuple(size)
        count = int(np.prod(shape))
        if replace:
            return self._vector('choice_vec', n, count, lambda d: pool[d], shape)
        sel = list(itertools.permutations(range(n), count))
        idx = self._ex.choice('choice_norepl', len(sel))
        out = pool[list(sel[idx])].reshape(shape)
        self._ex.track(out)
        return out

    # -- uniform reals -------------------------------------------------------
    def random_sample(self, size=None):
        if size is None or size == ():
            pts = self._ex.unit_points
            return pts[self._ex.choice('unit', len(pts))]
        shape = (size,) if isinstance(size, (int, np.integer)) else tuple(size)
        count = int(np.prod(shape))
        pts = self._ex.vec_unit_points
        return self._vector('unit_vec', len(pts), count, lambda d: pts[d], shape).astype(float)

    random = random_sample
    ranf = random_sample
    sample = random_sample

    def rand(self, *shape):
        return self.random_sample(shape if shape else None)

    def uniform(self, low=0.0, high=1.0, size=None):
        return low + (high - low) * self.random_sample(size)

    def standard_normal(self, size=None):
        return (self.random_sample(size) - 0.5) * 4.0

    def randn(self, *shape):
        return self.standard_normal(shape if shape else None)

    def normal(self, loc=0.0, scale=1.0, size=None):
        return loc + scale * self.standard_normal(size)

    def _unmodelled(self, name):
        def f(*a, **k):
            self._ex.unmodelled += 1
            raise Unmodelled('draw method %s is not modelled by the scripted generator' % name)
        return f


def _install_unmodelled():
    def make(name):
        def method(self, *a, **k):
            self._ex.unmodelled += 1
            raise Unmodelled('draw method %s is not modelled by the scripted generator' % name)
        method.__name__ = name
        return method
    for name in ('bytes', 'binomial', 'poisson', 'exponential', 'gamma', 'beta', 'multinomial', 'lognormal', 'laplace',
                 'geometric', 'tomaxint', 'triangular', 'weibull', 'standard_exponential', 'standard_gamma',
                 'standard_cauchy', 'standard_t', 'chisquare', 'dirichlet', 'gumbel', 'hypergeometric', 'logistic',
                 'logseries', 'multivariate_normal', 'negative_binomial', 'noncentral_chisquare', 'noncentral_f',
                 'pareto', 'power', 'rayleigh', 'vonmises', 'wald', 'zipf', 'f'):
        setattr(ScriptedRandomState, name, make(name))


_install_unmodelled()


# ---------------------------------------------------------------------------
# state keys
# ---------------------------------------------------------------------------

class Opaque(Exception):
    pass


_SCALARS = (int, float, str, bool, type(None), bytes, complex, np.integer, np.floating, np.bool_,
            np.complexfloating)


def canon(v, depth=0):
    if isinstance(v, np.ndarray):
        if v.dtype == object:
            return ('AO', v.shape, tuple(canon(x, depth + 1) for x in v.ravel()))
        return ('A', v.dtype.str, v.shape, np.ascontiguousarray(v).tobytes())
    if isinstance(v, _SCALARS):
        return ('S', type(v).__name__, repr(v))
    if isinstance(v, np.random.RandomState):
        return ('RNG',)
    if depth > 6:
        raise Opaque('too deep')
    if isinstance(v, (list, tuple)):
        return ('L', type(v).__name__, tuple(canon(x, depth + 1) for x in v))
    if isinstance(v, dict):
        return ('D', tuple(sorted((repr(k), canon(x, depth + 1)) for k, x in v.items())))
    if isinstance(v, (set, frozenset)):
        return ('T', tuple(sorted(repr(canon(x, depth + 1)) for x in v)))
    if isinstance(v, range):
        return ('R', v.start, v.stop, v.step)
    if isinstance(v, np.dtype):
        return ('DT', v.str)
    if isinstance(v, type(sys)):
        return ('M', v.__name__)
    if isinstance(v, type):
        return ('C', v.__module__, v.__qualname__)
    if callable(v) and hasattr(v, '__code__'):
        cells = ()
        if getattr(v, '__closure__', None):
            try:
                cells = tuple(canon(c.cell_contents, depth + 1) for c in v.__closure__)
            except ValueError:
                cells = ('empty-cell',)
        return ('F', v.__module__, v.__qualname__, cells)
    if callable(v) and hasattr(v, '__name__'):
        return ('BF', getattr(v, '__module__', ''), v.__name__)
    red = getattr(v, '__reduce__', None)
    if red is not None and type(v).__name__.endswith('iterator'):
        try:
            return ('IT', type(v).__name__, canon(red()[1:], depth + 1))
        except Exception:
            raise Opaque(type(v).__name__)
    raise Opaque(type(v).__name__)


def repo_frames(depth):
    """Live frames of library code (innermost first) below the current draw."""
    f = sys._getframe(depth)
    while f is not None and not f.f_code.co_filename.startswith(REPO_PREFIX):
        f = f.f_back
    out = []
    while f is not None and f.f_code.co_filename.startswith(REPO_PREFIX):
        out.append(f)
        f = f.f_back
    return out


class Explorer(object):
    """run(rng) executes the function under test once with the scripted generator."""

    def __init__(self, run, unit_points=(0.25, 0.75), vec_unit_points=(0.25, 0.75), prune=True,
                 horizon=2000, max_executions=200000, exec_timeout=30.0, invariant=None,
                 extra_state=None, stop_on_first=True, depth_bound=None, max_seconds=None):
        self.run = run
        self.unit_points = tuple(unit_points)
        self.vec_unit_points = tuple(vec_unit_points)
        self.prune = prune
        self.horizon = horizon
        self.max_executions = max_executions
        self.exec_timeout = exec_timeout
        self.invariant = invariant
        self.extra_state = extra_state
        self.stop_on_first = stop_on_first
        self.depth_bound = depth_bound      # intentional bound on choice points per execution
        self.depth_cuts = 0
        self.max_seconds = max_seconds      # wall-clock guard per configuration (blow-up protection)
        self.timed_out_config = False
        self.seen = set()
        self.executions = 0
        self.completed = 0
        self.transitions = 0
        self.aborted = 0
        self.horizon_hits = 0
        self.timeouts = 0
        self.opaque_states = 0
        self.unmodelled = 0
        self.capped = False
        self.max_depth = 0
        self.max_dev_completed = 0
        self.terminal = set()
        self.stopped_early = False
        self.stop_now = False
        self._tracked = []

    # -- called by the scripted generator ------------------------------------
    def track(self, arr):
        try:
            self._tracked.append(weakref.ref(arr))
        except TypeError:
            pass

    def note_value(self, kind, value):
        self.values.append((kind, np.array(value).copy()))

    def _frames(self):
        return repo_frames(3)

    def state_key(self, kind, menu, frames):
        parts = [kind, menu]
        first = True
        for f in frames:
            after, always, tail = liveness(f.f_code)
            if not first and f.f_lasti in tail:
                continue
            first = False
            keep = after.get(f.f_lasti)
            loc = f.f_locals
            if keep is None:
                items = sorted(loc.items())
            else:
                items = sorted((k, v) for k, v in loc.items() if k in keep or k in always)
            # aliasing partition of live arrays
            bases = {}
            for k, v in items:
                if isinstance(v, np.ndarray):
                    b = v
                    while isinstance(b.base, np.ndarray):
                        b = b.base
                    bases.setdefault(id(b), []).append(k)
            alias = tuple(sorted(tuple(g) for g in bases.values() if len(g) > 1))
            parts.append((f.f_code.co_qualname, f.f_lasti,
                          tuple((k, canon(v)) for k, v in items), alias))
        alive = []
        keep_refs = []
        for r in self._tracked:
            a = r()
            if a is not None:
                keep_refs.append(r)
                alive.append(canon(a))
        self._tracked = keep_refs
        parts.append(tuple(alive))
        if self.extra_state is not None:
            parts.append(canon(self.extra_state()))
        return hashlib.blake2b(repr(parts).encode(), digest_size=16).digest()

    def choice(self, kind, menu):
        pos = len(self.trace)
        if self.depth_bound is not None and pos >= self.depth_bound:
            self.depth_cuts += 1
            raise Abort()
        if pos >= self.horizon:
            self.horizon_hits += 1
            self.stop_now = True       # deeper executions of this configuration would only repeat the cut
            raise Abort()
        site = None
        if pos < len(self.prefix):
            idx = self.prefix[pos]
            if idx >= menu:
                raise HarnessError('replay divergence: answer %d outside menu %d at depth %d (%s)'
                                   % (idx, menu, pos, kind))
            self.sig = hash((self.sig, kind, menu))
            self.trace.append(idx)
            if pos == len(self.prefix) - 1 and self.sig != self.prefix_sig:
                raise HarnessError('replay divergence: choice-point signature differs at depth %d' % pos)
            return idx
        frames = self._frames()
        if self.prune:
            try:
                key = self.state_key(kind, menu, frames)
            except Opaque:
                self.opaque_states += 1
                key = ('opaque', self.executions, pos)
            if key in self.seen:
                self.aborted += 1
                raise Abort()
            self.seen.add(key)
        else:
            self.nstates_unpruned += 1
        if self.invariant is not None and frames:
            self.invariant(frames, tuple(self.trace))
        self.sig_at.append(self.sig)
        if menu > 1:
            self._push(tuple(self.trace), 1, menu, hash((self.sig, kind, menu)))
        self.transitions += menu
        self.sig = hash((self.sig, kind, menu))
        self.trace.append(0)
        del site
        return 0

    # -- frontier --------------------------------------------------------------
    def _push(self, base, alt, menu, sig):
        ndev = sum(1 for x in base if x) + 1
        self._cnt += 1
        heapq.heappush(self.frontier, (ndev, len(base), self._cnt, base, alt, menu, sig))

    def _alarm(self, signum, frame):
        raise ExecTimeout()

    def explore(self, on_complete):
        """on_complete(status, value, trace) is called for every completed execution;
        status in {'ok','exc','timeout'}; return True to stop this configuration."""
        self.frontier = []
        self._cnt = 0
        self.nstates_unpruned = 0
        pending = [(0, 0, 0, (), None, None, hash(()))]
        old = signal.signal(signal.SIGALRM, self._alarm)
        t_start = time.time()
        rng = ScriptedRandomState(self)      # stateless apart from its link to the explorer: one instance serves all executions
        try:
            while True:
                if pending:
                    ndev, _, _, base, alt, menu, sig = pending.pop()
                    prefix = base
                elif self.frontier:
                    ndev, ln, _, base, alt, menu, sig = heapq.heappop(self.frontier)
                    prefix = base + (alt,)
                    if alt + 1 < menu:
                        self._cnt += 1
                        heapq.heappush(self.frontier, (ndev, ln, self._cnt, base, alt + 1, menu, sig))
                else:
                    break
                if self.executions >= self.max_executions:
                    self.capped = True
                    break
                if self.stop_now:
                    break
                if self.max_seconds is not None and time.time() - t_start > self.max_seconds:
                    self.timed_out_config = True
                    break
                self.prefix = prefix
                self.prefix_sig = sig
                self.trace = []
                self.sig = hash(())
                self.sig_at = []
                self._tracked = []
                self.values = []
                self.executions += 1
                signal.setitimer(signal.ITIMER_REAL, self.exec_timeout)
                try:
                    out = self.run(rng)
                    status = 'ok'
                except Abort:
                    continue
                except ExecTimeout as e:
                    self.timeouts += 1
                    status, out = 'timeout', e
                except HarnessError:
                    raise
                except RecursionError as e:
                    self.horizon_hits += 1
                    continue
                except Unmodelled:
                    self.unmodelled += 1
                    continue
                except Exception as e:  # noqa: BLE001
                    status, out = 'exc', e
                finally:
                    signal.setitimer(signal.ITIMER_REAL, 0)
                if len(self.trace) < len(self.prefix):
                    raise HarnessError('replay divergence: execution ended after %d of %d scripted '
                                       'answers' % (len(self.trace), len(self.prefix)))
                self.completed += 1
                self.max_depth = max(self.max_depth, len(self.trace))
                self.max_dev_completed = max(self.max_dev_completed, ndev)
                if on_complete(status, out, tuple(self.trace)) and self.stop_on_first:
                    self.stopped_early = True
                    break
        finally:
            signal.setitimer(signal.ITIMER_REAL, 0)
            signal.signal(signal.SIGALRM, old)
        return self.stats()

    def stats(self):
        return {
            'states': len(self.seen) + self.nstates_unpruned,
            'transitions': self.transitions,
            'executions': self.executions,
            'completed': self.completed,
            'pruned': self.aborted,
            'horizon_hits': self.horizon_hits,
            'timeouts': self.timeouts,
            'opaque_states': self.opaque_states,
            'unmodelled_draws': self.unmodelled,
            'capped': self.capped or self.timed_out_config,
            'config_time_budget_hit': self.timed_out_config,
            'depth_bound_cuts': self.depth_cuts,
            'max_depth': self.max_depth,
        }


def replay_answers(fn, answers, unit_points=(0.25, 0.75), vec_unit_points=(0.25, 0.75), at_choice=None):
    """Re-run fn(rng) on a fixed answer list through a plain list-backed generator (no
    pruning, no frontier): used to confirm violations and by --replay."""
    class _Fixed(object):
        def __init__(self):
            self.unit_points = tuple(unit_points)
            self.vec_unit_points = tuple(vec_unit_points)
            self.pos = 0
            self.unmodelled = 0
            self.log = []

        def choice(self, kind, menu):
            if self.pos >= len(answers):
                # the recorded trace ends here: evaluate the state hook once more, then stop (answering
                # defaults for ever could spin in a retry loop)
                if at_choice is not None:
                    at_choice(repo_frames(3), tuple(x[2] for x in self.log))
                raise Abort()
            idx = answers[self.pos]
            self.pos += 1
            if idx >= menu:
                raise HarnessError('replay: answer %d outside menu %d' % (idx, menu))
            self.log.append((kind, menu, idx))
            if at_choice is not None:
                at_choice(repo_frames(3), tuple(x[2] for x in self.log[:-1]))
            return idx

        def track(self, arr):
            pass

        def note_value(self, kind, value):
            self.values.append((kind, np.array(value).copy()))
    fx = _Fixed()
    fx.values = []
    try:
        fn_out = fn(ScriptedRandomState(fx))
        replay_answers.last_values = fx.values
        return 'ok', fn_out, fx.log
    except Abort:
        return 'cut', None, fx.log
    except HarnessError:
        raise
    except Exception as e:  # noqa: BLE001
        return 'exc', e, fx.log
