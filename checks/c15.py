"""C15 - k-core / s-core outputs are the maximal subnetworks meeting the degree bound.

Engine B: all graphs n<=5 (6 thorough) x all k, all digraphs n<=4 x all k,
weighted 4-node graphs x s grid; oracle = union of all node subsets that satisfy
the bound internally (subset enumeration) + independent synchronous peeling.
"""
from fractions import Fraction

import numpy as np

import bct
from bctmc import smallscope as ss
from bctmc import named
from bctmc.runner import guarded
from bctmc.tally import Tally
from bctmc import dtypes

PROPERTY = 'C15'
RULE = ('K260, a 12-clique with a hub of degree 258 (degrees beyond 255) and path600 (300 peeling rounds, peel levels) against the peeling definition; element types: every routine also on int64 / int32 / uint8 / bool copies of all 3-node digraphs over {0,1} and {0,1,2}, 4-node graphs over {0,1,2}, 5-node binary graphs (same values as for float64; integers must not raise, a boolean matrix may be rejected with TypeError); every free tree on 8 nodes under the scan orders of bctmc/trees.py (951 labelled trees, 0/1); the structured 7-10 node family of bctmc/named.py and all undirected graphs n<=6 x k=0..n; all digraphs n<=4 x k=0..2n-1 '
        '(n<=3 and 4-node digraphs in quick); symmetric weights {1,2,3}, {0.5,1,1.5} and the non-dyadic {0.3,0.6} on 4 nodes x s on a 0.25 '
        'grid up to max strength+0.25; coreness on every graph; non-trivial = (graph,k) whose peeling needs >= 2 '
        'rounds (removing one node drags others below the bound)')
ASSUMPTIONS = ['float64 0/1 (or listed weight) matrices with empty diagonal',
               'reference: union of all node subsets meeting the bound internally, by enumeration of all 2^n subsets']


ETYPE_FUNCS = [('kcore_bu[%d]' % k, (lambda A, k=k: bct.kcore_bu(A, k, peel=True)), lambda A, d: not d) for k in (1, 2, 3)] + \
    [('kcore_bd[%d]' % k, (lambda A, k=k: bct.kcore_bd(A, k, peel=True)), None) for k in (1, 2, 3, 4)] + \
    [('score_wu[2]', lambda A: bct.score_wu(A, 2), lambda A, d: not d),
     ('kcoreness_centrality_bu', bct.kcoreness_centrality_bu, lambda A, d: not d),
     ('kcoreness_centrality_bd', bct.kcoreness_centrality_bd, None)]


def plan(ctx):
    units = []
    for n in range(1, 6 + 1):
        tot = ss.und_count(n, (0, 1))
        for (a, b) in ss.ranges(tot, 128 if n >= 5 else 2):
            units.append(('und', n, (0, 1), a, b))
    for n in range(1, 5):
        tot = ss.dir_count(n, (0, 1))
        for (a, b) in ss.ranges(tot, 64 if n >= 4 else 1):
            units.append(('dir', n, (0, 1), a, b))
    for alpha in ((0, 1, 2, 3), (0, 0.5, 1, 1.5), (0, 0.3, 0.6)):
        tot = ss.und_count(4, alpha)
        for (a, b) in ss.ranges(tot, 64):
            units.append(('wu', 4, alpha, a, b))
    for tag in ('bintree8_und', 'bin_und', 'bin_dir'):
        tot = len(named.family(tag))
        for (a, b) in ss.ranges(tot, 32):
            units.append(('named_' + tag, 0, (0, 1), a, b))
    if ctx.thorough:
        tot = ss.und_count(5, (0, 1, 2))
        for (a, b) in ss.ranges(tot, 256):
            units.append(('wu', 5, (0, 1, 2), a, b))
    units += [('large', k, 0, 0, 0) for k in range(3)]
    units += dtypes.units(dtypes.STD_FAMILIES)
    return units


def inner_measure(kind, A, S):
    """degree (und), in+out degree (dir) or strength (wu) of every node inside node set S."""
    idx = list(S)
    sub = A[np.ix_(idx, idx)]
    if kind == 'und':
        d = (sub != 0).sum(axis=1)
    elif kind == 'dir':
        d = (sub != 0).sum(axis=1) + (sub != 0).sum(axis=0)
    else:
        # exact rational strengths of the float weights (decimal weights such as 0.3 are not dyadic)
        d = [sum((Fraction(float(x)) for x in row), Fraction(0)) for row in sub]
    return dict(zip(idx, d))


def core_ref(kind, A, k):
    """Largest S such that every node of S has measure >= k inside S (union of all such S)."""
    n = len(A)
    best = set()
    for mask in range(1, 1 << n):
        S = [v for v in range(n) if mask >> v & 1]
        d = inner_measure(kind, A, S)
        if all(d[v] >= k for v in S):
            best |= set(S)
    return best


def peel_ref(kind, A, k):
    """Synchronous peeling rounds: list of sorted node lists, as defined in the docstring."""
    A = A.copy()
    n = len(A)
    rounds = []
    while True:
        d = inner_measure(kind, A, range(n))
        ff = [v for v in range(n) if 0 < d[v] < k]
        if not ff:
            return rounds
        rounds.append(ff)
        A[ff, :] = 0
        A[:, ff] = 0


def restricted(A, S):
    out = np.zeros_like(A)
    idx = sorted(S)
    if idx:
        out[np.ix_(idx, idx)] = A[np.ix_(idx, idx)]
    return out


FUN = {'und': 'kcore_bu', 'dir': 'kcore_bd', 'wu': 'score_wu'}


def levels(kind, A):
    n = len(A)
    if kind == 'und':
        return list(range(0, n + 1))
    if kind == 'dir':
        return list(range(0, 2 * n))
    smax = float(A.sum(axis=1).max()) if n else 0.0
    vals = sorted(set(np.round(A[A != 0], 12).tolist()))
    if vals and any(abs(v * 4 - round(v * 4)) > 1e-9 for v in vals):
        # non-dyadic weights: thresholds at the individual weight values (exact ties with a single remaining
        # connection) and strictly between attainable strengths
        grid = set(vals) | {v / 2.0 for v in vals} | {vals[0] + vals[-1] - 0.05, 2 * vals[-1] + 0.05}
        return sorted(grid)
    return [x * 0.25 for x in range(0, int(smax * 4) + 2)]


def check_core(t, kind, A, k, case, want_peel):
    fname = FUN[kind]
    n = len(A)
    S = core_ref(kind, A, k)
    expect = restricted(A, S) if k > 0 else A
    f = getattr(bct, fname)
    arg = A.copy()
    if kind == 'wu':
        st, out = guarded(f, arg, k)
    else:
        st, out = guarded(f, arg, k, peel=want_peel)
    if st != 'ok':
        t.viol(fname, 'raises', case, observed=out)
        return None
    M, size = out[0], out[1]
    M = np.asarray(M, dtype=float)
    if M.shape != A.shape or not np.array_equal(M, expect):
        t.viol(fname, 'core_matrix', case, observed=M, expected=expect)
    if k > 0 and int(size) != len(S):
        t.viol(fname, 'core_size', case, observed=size, expected=len(S))
    rounds = peel_ref(kind, A, k)
    if want_peel and kind != 'wu':
        order, level = out[2], out[3]
        got_o = [int(x) for part in order for x in np.asarray(part).ravel()]
        got_l = [float(x) for part in level for x in np.asarray(part).ravel()]
        exp_o = [v for r in rounds for v in r]
        exp_l = [float(i + 1) for i, r in enumerate(rounds) for _ in r]
        if sorted(got_o) != sorted(exp_o) or len(set(got_o)) != len(got_o):
            t.viol(fname, 'peel_each_once', case, observed=got_o, expected=exp_o)
        elif len(got_l) != len(got_o) or dict(zip(got_o, got_l)) != dict(zip(exp_o, exp_l)):
            t.viol(fname, 'peel_levels', case, observed=[got_o, got_l], expected=[exp_o, exp_l])
    return S, len(rounds)


def check_graph(t, kind, A, base):
    n = len(A)
    prev = None
    nontriv = 0
    cores = {}
    for k in levels(kind, A):
        case = dict(base, k=k)
        for want_peel in ((False, True) if kind != 'wu' else (False,)):
            r = check_core(t, kind, A, k, dict(case, peel=want_peel), want_peel)
        t.c['evaluations'] += 1
        if r is None:
            continue
        S, nrounds = r
        cores[k] = S
        if nrounds >= 2:
            nontriv += 1
        if prev is not None and k > 1 and not S <= prev:
            raise RuntimeError('oracle self-check failed: cores not nested')
        prev = S
    if kind in ('und', 'dir') and n >= 1:
        fname = 'kcoreness_centrality_bu' if kind == 'und' else 'kcoreness_centrality_bd'
        st, out = guarded(getattr(bct, fname), A.copy())
        t.c['evaluations'] += 1
        if st != 'ok':
            t.viol(fname, 'raises', base, observed=out)
        else:
            coreness, kn = out
            exp = np.zeros(n)
            for k in sorted(cores):
                if k >= 1:
                    for v in cores[k]:
                        exp[v] = k
            if not np.array_equal(np.asarray(coreness, dtype=float), exp):
                tags = {}
                if kind == 'dir':
                    tags = {'max_coreness_ge_n': bool(exp.max() >= n)}
                t.viol(fname, 'coreness', base, observed=coreness, expected=exp, tags=tags)
            kn = np.asarray(kn, dtype=float)
            for k in range(1, len(kn)):
                if k in cores and kn[k] != len(cores[k]):
                    t.viol(fname, 'core_sizes', base, observed=kn, expected=[len(cores[j]) for j in sorted(cores)])
                    break
    return nontriv


def large_graphs():
    """degrees of 256 and more (a narrow integer counter would wrap): K260, and a 12-clique whose node 0 also carries
    247 pendant nodes (degree 258)."""
    K = np.ones((260, 260)) - np.eye(260)
    H = np.zeros((259, 259))
    H[:12, :12] = 1 - np.eye(12)
    H[0, 12:] = H[12:, 0] = 1
    P = np.zeros((600, 600))
    for i in range(599):
        P[i, i + 1] = P[i + 1, i] = 1
    return [('K260', K), ('clique12_hub258', H), ('path600', P)]


def work_large(idx):
    t = Tally(PROPERTY)
    label, A = large_graphs()[idx]
    n = len(A)
    for kind, fname in (('und', 'kcore_bu'), ('dir', 'kcore_bd')):
        for k in (1, 2, 5, 11, 12, 100, 256, 259, 260, 300, 518, 519):
            rounds = peel_ref(kind, A, k)
            gone = sorted(v for r in rounds for v in r)
            keep = [v for v in range(n) if v not in set(gone)]
            expect = restricted(A, keep)
            size = int(np.count_nonzero(expect.any(axis=0) | expect.any(axis=1)))
            st, out = guarded(getattr(bct, fname), A.copy(), k, _timeout=300)
            t.c['evaluations'] += 1
            case = {'family': 'large', 'index': idx, 'graph': label, 'k': k, 'A': 'large[%d]' % idx}
            if st != 'ok':
                t.viol(fname, 'raises', case, observed=out)
                continue
            M = np.asarray(out[0], dtype=float)
            if M.shape != A.shape or not np.array_equal(M, expect):
                t.viol(fname, 'core_matrix', case, observed=int(np.count_nonzero(M)), expected=int(np.count_nonzero(expect)))
            if int(out[1]) != size:
                t.viol(fname, 'core_size', case, observed=out[1], expected=size)
            if label == 'path600' and k in (2, 5):
                # 300 peeling rounds: the level of every removed node is its round
                st, outp = guarded(getattr(bct, fname), A.copy(), k, peel=True, _timeout=600)
                t.c['evaluations'] += 1
                if st != 'ok':
                    t.viol(fname, 'raises', dict(case, peel=True), observed=outp)
                else:
                    got_o = [int(x) for part in outp[2] for x in np.asarray(part).ravel()]
                    got_l = [float(x) for part in outp[3] for x in np.asarray(part).ravel()]
                    exp = {v: float(i + 1) for i, r in enumerate(rounds) for v in r}
                    if sorted(got_o) != sorted(exp) or len(got_l) != len(got_o) or dict(zip(got_o, got_l)) != exp:
                        t.viol(fname, 'peel_levels', dict(case, peel=True), observed=sorted(set(got_l))[:6] + sorted(set(got_l))[-3:],
                               expected=[1.0, float(len(rounds))])
    st, out = guarded(bct.kcoreness_centrality_bu, A.copy(), _timeout=600)
    t.c['evaluations'] += 1
    if st != 'ok':
        t.viol('kcoreness_centrality_bu', 'raises', {'family': 'large', 'index': idx, 'graph': label, 'A': 'large[%d]' % idx}, observed=out)
    else:
        exp = np.zeros(n)
        for k in range(1, n + 1):
            rounds = peel_ref('und', A, k)
            gone = sorted(set(v for r in rounds for v in r))
            left = restricted(A, [v for v in range(n) if v not in set(gone)])
            alive = [v for v in range(n) if left[v].any()]
            if not alive:
                break
            exp[alive] = k
        if not np.array_equal(np.asarray(out[0], dtype=float), exp):
            t.viol('kcoreness_centrality_bu', 'coreness', {'family': 'large', 'index': idx, 'graph': label, 'A': 'large[%d]' % idx},
                   observed=np.asarray(out[0])[:14], expected=exp[:14])
    t.c['nontrivial'] += 1
    return t


def work(unit):
    if unit[0] == 'large':
        return work_large(unit[1])
    if unit[0] == 'etype':
        return dtypes.work_unit(PROPERTY, ETYPE_FUNCS, unit)
    kind, n, alpha, a, b = unit
    t = Tally(PROPERTY)
    for idx in range(a, b):
        if kind.startswith('named_'):
            label, A = named.family(kind[6:])[idx]
            k2 = 'und' if kind.endswith('und') else 'dir'
            base = {'family': k2, 'n': len(A), 'alphabet': [0, 1], 'index': idx, 'graph': label, 'A': A}
            nt = check_graph(t, k2, A, base)
            t.c['nontrivial'] += nt
            t.c['graphs'] += 1
            continue
        A = ss.dir_graph(n, alpha, idx) if kind == 'dir' else ss.und_graph(n, alpha, idx)
        base = {'family': kind, 'n': n, 'alphabet': list(alpha), 'index': idx, 'A': A}
        nt = check_graph(t, kind, A, base)
        t.c['nontrivial'] += nt
        t.c['graphs'] += 1
        if nt and idx % 53 == 3:
            t.sample(base, order=-n * 10 ** 7 + idx)
    return t


def replay(rec):
    if rec['case'].get('family') == 'large':
        return work_large(rec['case']['index'])
    if rec['case'].get('family') == 'element_types':
        return dtypes.replay(PROPERTY, ETYPE_FUNCS, rec['case'])
    t = Tally(PROPERTY)
    c = rec['case']
    A = np.array(c['A'], dtype=float)
    base = {k: c[k] for k in ('family', 'n', 'alphabet', 'index')}
    base['A'] = A
    check_graph(t, c['family'], A, base)
    return t
