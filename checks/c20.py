"""C20 - synthetic generators deliver the requested size, edge count and symmetry.

Engine A (rngmc): for every parameter tuple of a small grid, ALL answers of the random
generator (every permutation / threshold outcome / repair choice) on the real code.
"""
import itertools

import numpy as np

import bct
from bctmc.explorer import Explorer, replay_answers, Unmodelled
from bctmc.runner import quiet
from bctmc.tally import Tally

PROPERTY = 'C20'
RULE = ('makerandCIJ_und(n,K) n in {3,4} all K; makerandCIJ_dir(3,K) all K; makeringlatticeCIJ(n,K) n=4 (every K), n=5,6 '
        '(K filling whole bands, and the partial middle band of n=6); makeevenCIJ(4,K,sz_cl); makefractalCIJ(2,E,sz_cl) E in '
        '{1,2,3}: all 2^16 threshold outcomes; maketoeplitzCIJ(3,K,s): all 2^9 outcomes per draw, up to two draws, '
        'maketoeplitzCIJ(4,K,s) one draw; makerandCIJdegreesfixed: every realisable pair of degree sequences on 3-4 nodes '
        'with total <= 5 (quick) / 6 (thorough); ALL generator answers per configuration; non-trivial = configuration with >= 2 '
        'distinct outputs; additionally makeringlatticeCIJ n=5..8 (every K), makerandCIJ_dir n=4,5, makerandCIJ_und n=5,6, makeevenCIJ n=8 '
        'over a fixed subset of 2n+2 structured orders of their (too large) permutation menus - exhaustive over the parameters only; '
        'and large sizes (makerandCIJ_und up to 1500 nodes, makerandCIJ_dir 1100, ring lattice 301, makeevenCIJ 128, makefractalCIJ 128) under the four '
        'answer strategies of bctmc/structured.py (lowest / highest / spread / alternating answers), incl. makeevenCIJ on 16 nodes for every K x cluster exponent 0..3 and on 32 nodes for every K x exponents 0, 2')
ASSUMPTIONS = ['a uniform draw compared with a probability p is represented by the points 0.0 and 0.999999: both outcomes '
               'for 0<p<1, the only possible outcome for p<=0 or p>=1',
               'makerandCIJdegreesfixed may give up with BCTParamError (documented heuristic); only returned matrices are judged',
               'permutation menus are bounded by 8!: makerandCIJ_dir(n>=4), makeevenCIJ(n>=8), fractal levels >= 3 are outside']


def realisable(inv, outv):
    n = len(inv)
    cells = [(i, j) for i in range(n) for j in range(n) if i != j]
    k = sum(inv)
    for sel in itertools.combinations(cells, k):
        M = np.zeros((n, n), dtype=int)
        for (i, j) in sel:
            M[i, j] = 1
        if M.sum(axis=0).tolist() == list(inv) and M.sum(axis=1).tolist() == list(outv):
            return True
    return False


def degree_pairs(n, maxsum):
    out = []
    seqs = [s for s in itertools.product(range(n), repeat=n) if 1 <= sum(s) <= maxsum]
    for inv in seqs:
        for outv in seqs:
            if sum(inv) == sum(outv) and realisable(inv, outv):
                out.append((inv, outv))
    return out


def catalogue(thorough):
    cfgs = []
    for n in (3, 4):
        for K in range(0, n * (n - 1) // 2 + 1):
            cfgs.append(('makerandCIJ_und', (n, K)))
    for K in range(0, 7):
        cfgs.append(('makerandCIJ_dir', (3, K)))
    ring4 = range(0, 13) if thorough else (0, 2, 5, 8, 9, 10, 11, 12)
    for K in ring4:
        cfgs.append(('makeringlatticeCIJ', (4, K)))
    for K in (10, 20):
        cfgs.append(('makeringlatticeCIJ', (5, K)))
    for K in (12, 24, 25, 26, 27, 28, 29, 30):
        cfgs.append(('makeringlatticeCIJ', (6, K)))
    for sz in (1, 2):
        for K in (range(0, 13) if (thorough or sz == 2) else (0, 3, 4, 5, 8, 12)):
            cfgs.append(('makeevenCIJ', (4, K, sz)))
    for E in ((1, 2, 3) if thorough else (1, 2)):
        for sz in (1, 2):
            cfgs.append(('makefractalCIJ', (2, E, sz)))
    for K in (1, 2, 3, 4, 5, 6):
        for s in (0.5, 1.0):
            cfgs.append(('maketoeplitzCIJ', (3, K, s)))
    if thorough:
        for K in (2, 6, 10):
            cfgs.append(('maketoeplitzCIJ', (4, K, 1.0)))
    # larger parameter grids whose permutation menus exceed 8!: explored over a fixed subset of 2n+2 structured orders
    # (marked 'subset'; exhaustive over the parameters, not over the answers)
    for n in (5, 6, 7, 8):
        for K in range(0, n * (n - 1) + 1):
            if ('makeringlatticeCIJ', (n, K)) not in cfgs:
                cfgs.append(('makeringlatticeCIJ', (n, K), 'subset'))
    for n in (4, 5):
        for K in range(0, n * (n - 1) + 1, 1 if n == 4 else 3):
            cfgs.append(('makerandCIJ_dir', (n, K), 'subset'))
    for n in (5, 6):
        for K in range(0, n * (n - 1) // 2 + 1, 2):
            cfgs.append(('makerandCIJ_und', (n, K), 'subset'))
    for sz in (1, 2, 3):
        for K in (0, 8, 16, 24, 25, 40, 56):
            cfgs.append(('makeevenCIJ', (8, K, sz), 'subset'))
    for inv, outv in degree_pairs(3, 6):
        cfgs.append(('makerandCIJdegreesfixed', (list(inv), list(outv))))
    for inv, outv in degree_pairs(4, 6 if thorough else 4):
        cfgs.append(('makerandCIJdegreesfixed', (list(inv), list(outv))))
    return cfgs


# large sizes (a size-triggered branch may sit far beyond the enumerable menus): every answer strategy of
# bctmc/structured.py; only routines without a rejection loop
LARGE = [('makerandCIJ_und', (60, 100)), ('makerandCIJ_und', (300, 2000)), ('makerandCIJ_und', (1500, 6000)),
         ('makerandCIJ_dir', (60, 200)), ('makerandCIJ_dir', (1100, 8000)),
         ('makeringlatticeCIJ', (100, 450)), ('makeringlatticeCIJ', (301, 1500)),
         ('makeevenCIJ', (64, 500, 3)), ('makeevenCIJ', (128, 3000, 2)),
         ('makefractalCIJ', (6, 2, 2)), ('makefractalCIJ', (7, 1.5, 3))]
# makeevenCIJ on 16 nodes for EVERY K and cluster size exponent 0..3, on 32 nodes for every K and exponents 0, 2
# (the count of connections may depend on K through rounding; the grid is exhaustive over the parameters)
LARGE += [('makeevenCIJ', (16, K, sz)) for sz in (0, 1, 2, 3) for K in range(0, 241)]
LARGE += [('makeevenCIJ', (32, K, sz)) for sz in (0, 2) for K in range(0, 993)]


def work_large(fn, args):
    from bctmc.structured import StructuredRandomState, STRATEGIES
    from bctmc.runner import guarded
    t = Tally(PROPERTY)
    for strat in STRATEGIES:
        case = {'config': {'fn': fn, 'args': list(args)}, 'answer_strategy': strat}
        with quiet():
            st, value = guarded(getattr(bct, fn), *args, seed=StructuredRandomState(strat), _timeout=300)
        t.c['evaluations'] += 1
        t.c['large_size_executions'] += 1
        if st != 'ok':
            t.viol(fn, 'raises' if st == 'exc' else 'does_not_terminate', case, observed=value)
            continue
        reported = None
        if fn == 'makefractalCIJ':
            value, reported = value
        M = np.asarray(value, dtype=float)
        n = 2 ** args[0] if fn == 'makefractalCIJ' else args[0]
        cnt = int(np.count_nonzero(M))
        if M.shape != (n, n):
            t.viol(fn, 'shape', case, observed=M.shape, expected=(n, n))
            continue
        if not np.all((M == 0) | (M == 1)):
            t.viol(fn, 'entries_0_1', case, observed=float(np.max(np.abs(M))))
        if np.any(np.diag(M) != 0):
            t.viol(fn, 'empty_diagonal', case, observed=int(np.count_nonzero(np.diag(M))))
        if fn == 'makerandCIJ_und':
            if not np.array_equal(M, M.T):
                t.viol(fn, 'symmetric', case)
            if cnt != 2 * args[1]:
                t.viol(fn, 'exactly_K_connections', case, observed=cnt // 2, expected=args[1])
        elif fn in ('makerandCIJ_dir', 'makeringlatticeCIJ'):
            if cnt != args[1]:
                t.viol(fn, 'exactly_K_connections', case, observed=cnt, expected=args[1])
        elif fn == 'makeevenCIJ':
            skel = skeleton(args[0], args[2])
            want = max(args[1], skel)      # K below the cluster skeleton is documented as infeasible (skeleton returned)
            if cnt != want:
                t.viol(fn, 'exactly_K_connections', case, observed=cnt, expected=want)
        elif fn == 'makefractalCIJ':
            if reported != cnt:
                t.viol(fn, 'reported_count', case, observed=reported, expected=cnt)
        if fn == 'makeringlatticeCIJ':
            i, j = np.indices((n, n))
            d = np.minimum(np.abs(i - j), n - np.abs(i - j))
            fill = [(int(np.count_nonzero(M[d == k])), int(np.count_nonzero(d == k))) for k in range(1, n // 2 + 1)]
            used = [k for k, (a, b) in enumerate(fill) if a > 0]
            if used and any(fill[k][0] != fill[k][1] for k in range(used[-1])):
                t.viol(fn, 'nearer_bands_full_first', case, observed=fill[:used[-1] + 1])
    return t


def plan(ctx):
    cf = catalogue(ctx.thorough)
    heavy = [c for c in cf if len(c) == 2 and (c[0] in ('makefractalCIJ', 'maketoeplitzCIJ', 'makeringlatticeCIJ') or
                                               (c[0] == 'makeevenCIJ' and c[1][2] == 1))]
    light = [c for c in cf if c not in heavy]
    units = [[c] for c in heavy]
    for k in range(0, len(light), 12):
        units.append(light[k:k + 12])
    big = [c for c in LARGE if not (c[0] == 'makeevenCIJ' and c[1][0] in (16, 32))]
    grid = [c for c in LARGE if c not in big]
    units += [[('__large__', c)] for c in big]
    for k in range(0, len(grid), 120):
        units.append([('__large__', c) for c in grid[k:k + 120]])
    return units


def make_call(fn, args):
    f = getattr(bct, fn)
    if fn == 'makerandCIJdegreesfixed':
        return lambda rng: f(np.array(args[0], dtype=int), np.array(args[1], dtype=int), seed=rng)
    return lambda rng: f(*args, seed=rng)


_SKEL = {}


def skeleton(n, sz):
    if (n, sz) not in _SKEL:
        _SKEL[(n, sz)] = int(np.count_nonzero(bct.makeevenCIJ(n, 0, sz, seed=0)))
    return _SKEL[(n, sz)]


def circ(n, i, j):
    d = abs(i - j)
    return min(d, n - d)


def judge(t, fn, args, status, value, case_fn):
    if status != 'ok':
        if fn == 'makerandCIJdegreesfixed' and isinstance(value, bct.BCTParamError) and 'Could not resolve' in str(value):
            t.c['documented_give_ups'] += 1
            return False
        t.viol(fn, 'raises' if status == 'exc' else 'does_not_terminate', case_fn(), observed=value)
        return True
    bad = False
    reported = None
    if fn == 'makefractalCIJ':
        value, reported = value
    M = np.asarray(value)
    n = len(args[0]) if fn == 'makerandCIJdegreesfixed' else (2 ** args[0] if fn == 'makefractalCIJ' else args[0])
    if M.shape != (n, n):
        t.viol(fn, 'shape', case_fn(), observed=M.shape, expected=(n, n))
        return True
    Mf = M.astype(float)
    if not np.all((Mf == 0) | (Mf == 1)):
        t.viol(fn, 'entries_0_1', case_fn(), observed=Mf)
        bad = True
    if np.any(np.diag(Mf) != 0):
        t.viol(fn, 'empty_diagonal', case_fn(), observed=Mf)
        bad = True
    cnt = int(np.count_nonzero(Mf))
    if fn == 'makerandCIJ_und':
        if not np.array_equal(Mf, Mf.T):
            t.viol(fn, 'symmetric', case_fn(), observed=Mf)
            bad = True
        pairs = int(np.count_nonzero(np.triu(Mf, 1) + np.tril(Mf, -1).T))
        if pairs != args[1]:
            t.viol(fn, 'exactly_K_connections', case_fn(), observed=pairs, expected=args[1], detail={'output': Mf})
            bad = True
    elif fn in ('makerandCIJ_dir', 'makeringlatticeCIJ', 'maketoeplitzCIJ'):
        if cnt != args[1]:
            t.viol(fn, 'exactly_K_connections', case_fn(), observed=cnt, expected=args[1], detail={'output': Mf})
            bad = True
    elif fn == 'makeevenCIJ':
        # K below the size of the cluster skeleton is documented as infeasible (answered with the skeleton and a
        # printed warning); the skeleton size is what the routine returns for K = 0
        skel = skeleton(args[0], args[2])
        if args[1] < skel:
            t.c['infeasible_K_documented'] += 1
            if cnt != skel:
                t.viol(fn, 'skeleton_for_small_K', case_fn(), observed=cnt, expected=skel)
                bad = True
        elif cnt != args[1]:
            t.viol(fn, 'exactly_K_connections', case_fn(), observed=cnt, expected=args[1], detail={'output': Mf},
                   tags={'fewer_than_requested': cnt < args[1]})
            bad = True
    elif fn == 'makefractalCIJ':
        if reported != cnt:
            t.viol(fn, 'reported_count', case_fn(), observed=reported, expected=cnt, detail={'output': Mf})
            bad = True
    elif fn == 'makerandCIJdegreesfixed':
        if Mf.sum(axis=0).tolist() != list(args[0]) or Mf.sum(axis=1).tolist() != list(args[1]):
            t.viol(fn, 'degree_sequences', case_fn(), observed=[Mf.sum(axis=0), Mf.sum(axis=1)], expected=list(args),
                   detail={'output': Mf})
            bad = True
    if fn == 'makeringlatticeCIJ' and not bad:
        nbands = n // 2
        fill = []
        for d in range(1, nbands + 1):
            cells = [(i, j) for i in range(n) for j in range(n) if i != j and circ(n, i, j) == d]
            fill.append((sum(1 for c in cells if Mf[c] != 0), len(cells)))
        used = [k for k, (a, b) in enumerate(fill) if a > 0]
        if used:
            last = used[-1]
            if any(fill[k][0] != fill[k][1] for k in range(last)):
                t.viol(fn, 'nearer_bands_full_first', case_fn(), observed=fill, detail={'output': Mf})
                bad = True
    return bad


def explore(fn, args, mode=None):
    t = Tally(PROPERTY)
    call = make_call(fn, args)
    cfg = {'fn': fn, 'args': args}
    outcomes = set()

    def on_complete(status, value, trace):
        bad = judge(t, fn, args, status, value, lambda: {'config': cfg, 'answers': list(trace)})
        if status == 'ok':
            v = value[0] if fn == 'makefractalCIJ' else value
            outcomes.add(np.asarray(v).astype(int).tobytes())
        if not bad and not t.samples and len(trace) >= 1:
            t.sample({'config': cfg, 'answers': list(trace)[:20]}, order=hash(fn) % 100)
        return bad
    depth = None
    if fn == 'maketoeplitzCIJ':
        depth = 2 if args[0] == 3 else 1
    ex = Explorer(call, vec_unit_points=(0.0, 0.999999), unit_points=(0.25, 0.75), depth_bound=depth,
                  max_executions=600000)
    ex.allow_perm_subset = mode == 'subset'
    with quiet():
        st = ex.explore(on_complete)
    t.c['configs'] += 1
    if mode == 'subset':
        t.c['configs_with_answer_subset'] += 1
        t.note('configurations marked "subset" answer permutation menus beyond 8! from a fixed list of 2n+2 structured orders '
               '(bctmc.explorer.perm_subset): complete over the parameter grid and that list, not over all n! answers')
    t.c['evaluations'] += st['completed']
    t.c['executions'] += st['executions']
    t.c['states'] += st['states']
    t.c['transitions'] += st['transitions']
    t.c['depth_bound_cuts'] += st['depth_bound_cuts']
    if len(outcomes) >= 2:
        t.c['nontrivial'] += 1
    t.gauge('max_outcomes_one_config', len(outcomes))
    for k in ('horizon_hits', 'timeouts', 'opaque_states', 'unmodelled_draws'):
        if st[k]:
            t.flags[k] += st[k]
    if st['capped']:
        t.flags['execution_cap_hit'] += 1
    return t


def work(unit):
    t = Tally(PROPERTY)
    for c in unit:
        if c[0] == '__large__':
            t.merge(work_large(*c[1]))
        else:
            t.merge(explore(*c))
    return t


def coverage(ctx, total):
    c = total.c
    return {'states': int(c['states']), 'transitions': int(c['transitions']),
            'traces_validated_against_impl': int(c['executions'])}


def replay(rec):
    t = Tally(PROPERTY)
    case = rec['case']
    fn, args = case['config']['fn'], case['config']['args']
    if 'answer_strategy' in case:
        return work_large(fn, tuple(args))
    call = make_call(fn, args)
    with quiet():
        status, value, _ = replay_answers(call, case['answers'], vec_unit_points=(0.0, 0.999999))
    judge(t, fn, args, status, value, lambda: case)
    return t
