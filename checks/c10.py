"""C10 - weighted measures reduce to binary on 0/1 input, directed to undirected on
symmetric input, weight-ignoring routines see only the support.

Engine B: every 0/1 matrix (dir n<=4, und n<=5), every symmetric matrix over
{0,1/8,1} on 4 nodes; differential oracle between the two members of each pair.
"""
import numpy as np

import bct
from bctmc import smallscope as ss
from bctmc import oracles as orc
from bctmc import named
from bctmc.runner import guarded
from bctmc.tally import Tally

PROPERTY = 'C10'
RULE = ('weights of subnormal magnitude (3e-310, 7e-320) on 4-node graphs / 3-node digraphs for the weight-ignoring routines; every free tree on 8 nodes under the scan orders of bctmc/trees.py (951 labelled trees, 0/1); the structured 7-10 node family of bctmc/named.py (0/1) and all 0/1 digraphs n<=4 and graphs n<=5 for the weighted/binary pairs; all symmetric matrices over {0,1/8,1} on 4 '
        'nodes (and the binary graphs) for the directed/undirected pairs; weighted matrices over {0,1/8,1} (sym n=4, dir n=3) and signed {-1,0,1} (sym n=5, weights that cancel) (dir '
        'n=3) vs their binarisation for the weight-ignoring routines (quick also: all 6-node graphs for the distance/betweenness/efficiency pairs; thorough: und n=6 all pairs, sym weighted n=5, dir weighted '
        'n=4); non-trivial = input with unequal degrees and a triangle or an unreachable pair')
ASSUMPTIONS = ['float64 inputs with empty diagonal',
               'differential oracle: the two routines of a pair are compared with each other (1e-9, NaN-equal); a pair '
               'where one side raises and the other returns is a violation, both raising the same exception type is not',
               'local efficiency is compared on undirected input only (both docstrings say undirected)']

BIN = (0, 1)
WT = (0, 0.125, 1)
FAMILIES = {
    'bin_dir3': ('d', 3, BIN, 'q'), 'bin_dir4': ('d', 4, BIN, 'q'),
    'bin_und4': ('u', 4, BIN, 'q'), 'bin_und5': ('u', 5, BIN, 'q'),
    'wt_und4': ('u', 4, WT, 'q'), 'wt_dir3': ('d', 3, WT, 'q'),
    'tiny_und4': ('u', 4, (0, 3e-310, 1), 'q'), 'tiny_dir3': ('d', 3, (0, 7e-320, 0.5), 'q'),   # subnormal weights are connections too
    'sg_und5': ('u', 5, (-1, 0, 1), 'q'), 'sg_dir3': ('d', 3, (-1, 0, 1, 2), 'q'),   # signed: weights can cancel
    'bin_und6_paths': ('u', 6, BIN, 'q'),   # path-based pairs only (quick); everything in thorough
    'bin_und6': ('u', 6, BIN, 't'), 'bin_dir5_paths': ('d', 5, BIN, 't'), 'wt_und5': ('u', 5, WT, 't'), 'wt_dir4': ('d', 4, WT, 't'),
}


def plan(ctx):
    units = []
    for tag in ('bintree8_und', 'bin_und', 'bin_dir'):
        for (a, b) in ss.ranges(len(named.family(tag)), 16):
            units.append(('named:' + tag, a, b))
    for name, (kind, n, alpha, tier) in FAMILIES.items():
        if tier == 't' and not ctx.thorough:
            continue
        tot = ss.dir_count(n, alpha) if kind == 'd' else ss.und_count(n, alpha)
        for (a, b) in ss.ranges(tot, max(1, min(800, tot // 40))):
            units.append((name, a, b))
    return units


def flat(x):
    if isinstance(x, (tuple, list)):
        return [np.asarray(v, dtype=float) for v in x]
    return [np.asarray(x, dtype=float)]


def same(a, b):
    fa, fb = flat(a), flat(b)
    return len(fa) == len(fb) and all(orc.close(x, y) for x, y in zip(fa, fb))


def pair(t, label, case, left, right, X, Y=None):
    """left(X) must equal right(Y or X)."""
    Y = X if Y is None else Y
    sl, ol = guarded(left[1], X.copy())
    sr, orr = guarded(right[1], Y.copy())
    t.c['evaluations'] += 1
    fname = '%s~%s' % (left[0], right[0])
    if 'timeout' in (sl, sr):      # the 20 s call budget ran out: never "both raise the same exception"
        t.viol(fname, label + ':does_not_terminate', case, observed=[sl, sr])
        return
    if sl != 'ok' and sr != 'ok':
        if type(ol) is not type(orr):
            t.viol(fname, label + ':different_exceptions', case, observed=[ol, orr])
        else:
            t.c['both_raise'] += 1
        return
    if sl != 'ok' or sr != 'ok':
        t.viol(fname, label + ':one_side_raises', case, observed=[ol if sl != 'ok' else 'returns',
                                                                   orr if sr != 'ok' else 'returns'])
        return
    if not same(ol, orr):
        t.viol(fname, label, case, observed=flat(ol), expected=flat(orr))


def F(name, f=None):
    return (name, f or getattr(bct, name))


def binary_pairs(t, X, case, directed, paths_only=False):
    lab = 'weighted_equals_binary'
    if paths_only:
        pass
    elif not directed:
        pair(t, lab, case, F('clustering_coef_wu'), F('clustering_coef_bu'), X)
        pair(t, lab, case, F('transitivity_wu'), F('transitivity_bu'), X)
        pair(t, lab, case, F('strengths_und'), F('degrees_und'), X)
        pair(t, lab, case, F('efficiency_wei[local]', lambda A: bct.efficiency_wei(A, local=True)),
             F('efficiency_bin[local]', lambda A: bct.efficiency_bin(A, local=True)), X)
        pair(t, lab, case, F('assortativity_wei[0]', lambda A: bct.assortativity_wei(A, 0)),
             F('assortativity_bin[0]', lambda A: bct.assortativity_bin(A, 0)), X)
    else:
        pair(t, lab, case, F('strengths_dir', lambda A: bct.strengths_dir(A)),
             F('degrees_dir[deg]', lambda A: bct.degrees_dir(A)[2]), X)
        for fl in (1, 2, 3, 4):
            pair(t, lab, case, F('assortativity_wei[%d]' % fl, lambda A, fl=fl: bct.assortativity_wei(A, fl)),
                 F('assortativity_bin[%d]' % fl, lambda A, fl=fl: bct.assortativity_bin(A, fl)), X)
    if not paths_only:
        pair(t, lab, case, F('clustering_coef_wd'), F('clustering_coef_bd'), X)
        pair(t, lab, case, F('transitivity_wd'), F('transitivity_bd'), X)
    pair(t, lab, case, F('distance_wei[D]', lambda A: bct.distance_wei(A)[0]), F('distance_bin'), X)
    pair(t, lab, case, F('betweenness_wei'), F('betweenness_bin'), X)
    pair(t, lab, case, F('edge_betweenness_wei'), F('edge_betweenness_bin'), X)
    pair(t, lab, case, F('efficiency_wei'), F('efficiency_bin'), X)


def symmetric_pairs(t, X, case, binary):
    lab = 'directed_equals_undirected'
    if binary:
        pair(t, lab, case, F('clustering_coef_bd'), F('clustering_coef_bu'), X)
        pair(t, lab, case, F('transitivity_bd'), F('transitivity_bu'), X)
    pair(t, lab, case, F('clustering_coef_wd'), F('clustering_coef_wu'), X)
    pair(t, lab, case, F('transitivity_wd'), F('transitivity_wu'), X)
    pair(t, lab, case, F('degrees_dir[in]', lambda A: bct.degrees_dir(A)[0]), F('degrees_und'), X)
    pair(t, lab, case, F('degrees_dir[out]', lambda A: bct.degrees_dir(A)[1]), F('degrees_und'), X)
    pair(t, lab, case, F('strengths_dir[tot]', lambda A: bct.strengths_dir(A)), F('2*strengths_und', lambda A: 2 * bct.strengths_und(A)), X)
    pair(t, lab, case, F('density_dir[kden]', lambda A: bct.density_dir(A)[0]), F('density_und[kden]', lambda A: bct.density_und(A)[0]), X)


def ignore_weights(t, X, case, directed, signed=False):
    lab = 'weights_ignored'
    B = (X != 0).astype(float)
    names = ['breadthdist', 'reachdist']
    # routines that binarise their argument on entry (by reading the source): efficiency_bin, gtom
    if not directed:
        pair(t, lab, case, F('efficiency_bin(W)', bct.efficiency_bin), F('efficiency_bin(binarised W)', bct.efficiency_bin), X, B)
        pair(t, lab, case, F('efficiency_bin[local](W)', lambda A: bct.efficiency_bin(A, local=True)),
             F('efficiency_bin[local](binarised W)', lambda A: bct.efficiency_bin(A, local=True)), X, B)
    for nr in (1, 2):
        pair(t, lab, case, F('gtom[%d](W)' % nr, lambda A, nr=nr: bct.gtom(A, nr)),
             F('gtom[%d](binarised W)' % nr, lambda A, nr=nr: bct.gtom(A, nr)), X, B)
    if signed:
        names += ['degrees_dir', 'density_dir'] if directed else ['degrees_und', 'density_und', 'get_components']
        for nm in names:
            pair(t, lab, case, F(nm + '(W)', getattr(bct, nm)), F(nm + '(binarised W)', getattr(bct, nm)), X, B)
        pair(t, lab, case, F('distance_bin(W)', bct.distance_bin), F('distance_bin(binarised W)', bct.distance_bin), X, B)
        return
    names += ['degrees_dir', 'density_dir', 'edge_nei_overlap_bd', 'jdegree'] if directed else \
        ['degrees_und', 'density_und', 'edge_nei_overlap_bu', 'get_components', 'jdegree']
    for nm in names:
        pair(t, lab, case, F(nm + '(W)', getattr(bct, nm)), F(nm + '(binarised W)', getattr(bct, nm)), X, B)
    flags = (1, 2, 3, 4) if directed else (0,)
    for fl in flags:
        pair(t, lab, case, F('assortativity_bin[%d](W)' % fl, lambda A, fl=fl: bct.assortativity_bin(A, fl)),
             F('assortativity_bin[%d](binarised W)' % fl, lambda A, fl=fl: bct.assortativity_bin(A, fl)), X, B)
    kc = bct.kcore_bd if directed else bct.kcore_bu
    kn = 'kcore_bd' if directed else 'kcore_bu'
    for k in (1, 2, 3):
        pair(t, lab, case, F('%s(W,%d)' % (kn, k), lambda A, k=k: ((kc(A, k)[0] != 0).astype(float), kc(A, k)[1])),
             F('%s(binarised W,%d)' % (kn, k), lambda A, k=k: kc(A, k)), X, B)
    pair(t, lab, case, F('distance_bin(W)', bct.distance_bin), F('distance_bin(binarised W)', bct.distance_bin), X, B)
    pair(t, lab, case, F('findwalks(W)', lambda A: bct.findwalks(A)[0]), F('findwalks(binarised W)', lambda A: bct.findwalks(A)[0]), X, B)


def check_case(t, name, X, case):
    kind, n, alpha, _ = FAMILIES[name]
    directed = kind == 'd'
    if alpha == BIN:
        binary_pairs(t, X, case, directed, paths_only=name.endswith('_paths'))
        if n <= 4:
            # the same 0/1 matrix with its zeros stored as -0.0 (what W * (W > 0) leaves behind)
            Xn = np.where(X == 0, -0.0, X)
            binary_pairs(t, Xn, dict(case, X=Xn, variant='negative_zeros'), directed, paths_only=name.endswith('_paths'))
        if not directed and not name.endswith('_paths'):
            symmetric_pairs(t, X, case, True)
    else:
        if not directed:
            symmetric_pairs(t, X, case, False)       # also on signed symmetric matrices (correlation networks)
        ignore_weights(t, X, case, directed, signed=name.startswith('sg_'))
    A = (X != 0)
    S = A | A.T
    deg = S.sum(axis=1)
    tri = np.trace(np.linalg.matrix_power(S.astype(int), 3)) > 0
    return bool(len(set(deg.tolist())) > 1 and (tri or not ss.is_connected(X)))


def work(unit):
    name, a, b = unit
    t = Tally(PROPERTY)
    if name.startswith('named:'):
        fam = named.family(name[6:])
        directed = name.endswith('dir')
        for idx in range(a, b):
            label, X = fam[idx]
            case = {'family': name, 'index': idx, 'graph': label, 'X': X}
            binary_pairs(t, X, case, directed)
            if not directed:
                symmetric_pairs(t, X, case, True)
            t.c['nontrivial'] += 1
        return t
    kind, n, alpha, _ = FAMILIES[name]
    for idx in range(a, b):
        X = ss.dir_graph(n, alpha, idx) if kind == 'd' else ss.und_graph(n, alpha, idx)
        case = {'family': name, 'index': idx, 'X': X}
        if check_case(t, name, X, case):
            t.c['nontrivial'] += 1
            if idx % 61 == 7:
                t.sample(case, order=-n * 10 ** 7 + idx)
    return t


def replay(rec):
    t = Tally(PROPERTY)
    c = rec['case']
    if c['family'].startswith('named:'):
        X = np.array(c['X'], dtype=float)
        binary_pairs(t, X, c, c['family'].endswith('dir'))
        if not c['family'].endswith('dir'):
            symmetric_pairs(t, X, c, True)
        return t
    check_case(t, c['family'], np.array(c['X'], dtype=float), c)
    return t
