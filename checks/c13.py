"""C13 - library calls never modify the caller's arrays unless copy=False is requested.

Engine B over programs x inputs: EVERY public callable of the bct namespace (discovered by
introspection) x an argument alphabet chosen by parameter role x every flag value; byte-level
snapshot of every array argument before/after, whether the call returns or raises.
"""
import inspect
import itertools
import os

import numpy as np

import bct
from bctmc import seedtable as stb
from bctmc.runner import guarded
from bctmc.tally import Tally

PROPERTY = 'C13'
RULE = ('every public callable reachable from the bct namespace (152; found by introspection at run time) x connection '
        'matrices {binary digraph, binary graph, weighted positive symmetric, weighted positive asymmetric, weighted signed '
        'symmetric} x {zero diagonal, non-zero diagonal} on 5 nodes, the 0/1 ones also as bool / int64 / uint8 / float32 arrays (with and without self-connections) and the weighted ones as float32 (6 for the undirected binary one, disconnected variants '
        'included), plus for single-matrix programs every binary 3-node digraph and every signed symmetric 3-node matrix with '
        'zero / non-zero diagonal, x community vectors {1..k, non-contiguous, zero-based} x every value of each boolean/enum flag x every numeric scalar parameter at its usual value and, one at a time, at the boundary values 0 and 1; randomised '
        'routines with an integer seed on the C05 argument table (each entry also with non-zero diagonals on its matrix arguments and with each scalar argument at 0 / 1) and along their first 200 (2000) generator-answer paths under the scripted generator; a program (function x flag combination) is non-trivial when '
        'it returned normally on at least one input')
ASSUMPTIONS = ['copy=False calls of the thresholding/conversion utilities are exempt by definition (covered by C17)',
               'excluded programs: plotting / file output (adjacency_plot_und, writetoPAJ, make_motif34lib), listed in the evidence',
               'snapshot = bytes, dtype, shape, strides and writeable flag of every ndarray argument (also inside tuples/lists)']

EXCLUDED = {'adjacency_plot_und': 'plotting', 'writetoPAJ': 'writes a file', 'make_motif34lib': 'writes a file',
            'get_rng': 'no array argument', 'teachers_round': 'scalar only', 'pick_four_unique_nodes_quickly': 'scalar only'}
MATRIX_PARAMS = ('W', 'CIJ', 'A', 'G', 'Gw', 'adj', 'adjacency', 'CIJ0', 'R', 'x', 'm', 'm1', 'c')


def matrices():
    n = 5
    out = {}
    BD = np.zeros((n, n))
    for a, b in [(0, 1), (1, 2), (2, 0), (2, 3), (3, 4), (4, 2), (1, 0), (0, 3)]:
        BD[a, b] = 1
    BU = np.zeros((6, 6))
    for a, b in [(0, 1), (1, 2), (0, 2), (2, 3), (3, 4), (4, 5), (3, 5)]:
        BU[a, b] = BU[b, a] = 1
    BUd = np.zeros((5, 5))          # disconnected: triangle + edge
    for a, b in [(0, 1), (1, 2), (0, 2), (3, 4)]:
        BUd[a, b] = BUd[b, a] = 1
    WU = np.zeros((n, n))
    for k, (a, b) in enumerate([(0, 1), (1, 2), (0, 2), (2, 3), (3, 4), (0, 4)]):
        WU[a, b] = WU[b, a] = 0.25 * (k + 1)
    WA = BD * (0.1 + np.arange(n * n).reshape(n, n) / 30.0)
    WS = WU.copy()
    WS[0, 1] = WS[1, 0] = -0.5
    WS[3, 4] = WS[4, 3] = -0.75
    for name, M in (('BD', BD), ('BU', BU), ('BUd', BUd), ('WU', WU), ('WA', WA), ('WS', WS)):
        out[name] = M
        Md = M.copy()
        np.fill_diagonal(Md, [0.5 + 0.25 * k for k in range(len(M))])
        out[name + '+diag'] = Md
    # element types: the 0/1 matrices also as bool, int64, uint8 and float32 arrays; the weighted ones as float32
    # (a routine that copies by converting to float does not copy what is already of the type it asks for)
    for name in list(out):
        M = out[name]
        if name.startswith('B') and '+diag' not in name:
            for dt in (bool, np.int64, np.uint8, np.float32):
                out[name + '/' + np.dtype(dt).name] = M.astype(dt)
            Md = M.copy()
            np.fill_diagonal(Md, 1)
            out[name + '+selfloops/bool'] = Md.astype(bool)
            out[name + '+selfloops/int64'] = Md.astype(np.int64)
        elif name.startswith('W'):
            out[name + '/float32'] = M.astype(np.float32)
    # memory layouts: Fortran-ordered, a transposed view of a C array, a strided view into a larger buffer
    for name in [k for k in out if '/' not in k]:
        M = out[name]
        out[name + '/F'] = np.asfortranarray(M)
        out[name + '/T'] = np.ascontiguousarray(M.T).T
        big = np.zeros((2 * len(M), 2 * len(M)))
        big[::2, ::2] = M
        out[name + '/strided'] = big[::2, ::2]
    return out


_SMALL = {}


def small_matrices():
    """every binary 3-node digraph and every 3-node matrix over {0,1,-1} that is symmetric, each with a
    zero and a non-zero diagonal (inputs for the single-matrix programs)."""
    if not _SMALL:
        from bctmc import smallscope as ss
        for idx in range(ss.dir_count(3, (0, 1))):
            A = ss.dir_graph(3, (0, 1), idx)
            _SMALL['bd3_%d' % idx] = A
            Ad = A.copy()
            np.fill_diagonal(Ad, [2.0, 0.0, 1.0])
            _SMALL['bd3_%d+diag' % idx] = Ad
        for idx in range(ss.und_count(3, (0, 1, -1))):
            A = ss.und_graph(3, (0, 1, -1), idx) * 0.5
            _SMALL['su3_%d' % idx] = A
            Ad = A.copy()
            np.fill_diagonal(Ad, [1.0, -1.0, 0.5])
            _SMALL['su3_%d+diag' % idx] = Ad
    return _SMALL


def keep_layout(M):
    """fresh array with the same values, element type AND memory layout as M (plain .copy() would make it C-ordered)"""
    if M.dtype != np.float64:
        return M.copy()
    if M.flags.c_contiguous:
        return M.copy()
    if M.flags.f_contiguous:
        return np.asfortranarray(M.copy())
    big = np.zeros((2 * M.shape[0], 2 * M.shape[1]))
    big[::2, ::2] = M
    return big[::2, ::2]


def community_vectors(n):
    base = np.array(([1, 1, 2, 2, 3, 3, 3])[:n]) if n > 3 else np.array([1, 2, 2][:n])
    # ... and as the documented "Nx1" column, a 1xN row and a float vector (shape and dtype are part of the snapshot)
    return {'contiguous': base, 'noncontiguous': base * 10 + 7, 'zero_based': base - 1,
            'column': base.reshape(-1, 1).copy(), 'row': base.reshape(1, -1).copy(), 'float': base.astype(float)}


FLAG_VALUES = {
    'local': (False, True), 'flag': (0, 1, 2, 3, 4), 'transform': (None, 'inv', 'log'), 'peel': (False, True),
    'include_diagonal': (False, True), 'include_infinite': (True, False), 'coef_type': ('default', 'zhang', 'costantini'),
    'ensure_binary': (True, False), 'no_depend': (False,), 'klevel': (None, 3), 'has_memory': (False, True),
    'copy': (True,), 'verbose': (False,), 'type_clustering': ('single', 'complete'), 'return_sparse': (False,),
    'degree': ('undirected', 'in', 'out'), 'centrality_type': ('degree', 'betweenness'), 'qtype': ('sta', 'gja'),
    'gamma': (1,), 'kci': (None,), 'hierarchy': (False, True), 'zeroindexed': (False, True), 'savepths': (False, True),
    'falff': (None,), 'wcm': ('binarize', 'normalize', 'lengths'), 'cost': ('line', 'circ'), 'dfun': ('sqrdiff', 'cosang'),
    'n': (None,),
}
SCALARS = {'k': 2, 's': 0.6, 'thr': 0.3, 'p': 0.5, 'nr_steps': 3, 'd': 0.85, 'cq_thr': 1, 'avgdeg': 2, 'lamb': 0.5,
           'source': 0, 'qmax': 3, 'H': 50, 'Texp': 1, 'T0': 1e-3, 'Hbrk': 5, 'buffsz': 1000}


BOUNDARY = (0, 1)


def _is_scalar(v):
    return isinstance(v, (int, float)) and not isinstance(v, bool)


def _with_diag(v):
    if isinstance(v, np.ndarray) and v.ndim == 2 and v.shape[0] == v.shape[1] and v.dtype.kind == 'f' and len(v) > 1:
        v = v.copy()
        np.fill_diagonal(v, [1.0 - 0.125 * (k % 3) for k in range(len(v))])
    return v


def table_variants(a, kw):
    """the table entry itself; the entry with a non-zero diagonal on every square matrix argument; and each of
    the two with one numeric scalar argument at a time set to a boundary value (0, 1)."""
    for dlabel, fix in (('', lambda v: v), ('+diag', _with_diag)):
        a0 = [fix(v) for v in stb.clone(a)]
        k0 = {k: fix(v) for k, v in stb.clone(kw).items()}
        yield (dlabel, a0, k0)
        for pos, v in enumerate(a):
            if _is_scalar(v):
                for bv in BOUNDARY:
                    if bv != v:
                        a1 = [fix(x) for x in stb.clone(a)]
                        a1[pos] = type(v)(bv)
                        yield ('%s/arg%d=%s' % (dlabel, pos, bv), a1, {k: fix(x) for k, x in stb.clone(kw).items()})
        for key, v in kw.items():
            if _is_scalar(v):
                for bv in BOUNDARY:
                    if bv != v:
                        k1 = {k: fix(x) for k, x in stb.clone(kw).items()}
                        k1[key] = type(v)(bv)
                        yield ('%s/%s=%s' % (dlabel, key, bv), [fix(x) for x in stb.clone(a)], k1)


def build_programs():
    """-> list of (label, fname, builder) where builder(mats) yields (input_label, args, kwargs)."""
    progs, uncovered = [], []
    names = [nm for nm in sorted(dir(bct)) if callable(getattr(bct, nm)) and not inspect.isclass(getattr(bct, nm)) and
             getattr(getattr(bct, nm), '__module__', '').startswith('bct.') and not nm.startswith('_')]
    for nm in names:
        if nm in EXCLUDED:
            continue
        f = getattr(bct, nm)
        try:
            sig = inspect.signature(f)
        except (TypeError, ValueError):
            uncovered.append(nm)
            continue
        params = list(sig.parameters.values())
        if nm in SPECIAL:
            progs.append((nm, nm, SPECIAL[nm]))
            continue
        if 'seed' in sig.parameters and isinstance(stb.TABLE.get(nm), list):
            def b(mats, nm=nm):
                for idx in range(len(stb.TABLE[nm])):
                    a, kw = stb.TABLE[nm][idx]
                    for vlabel, va, vkw in table_variants(a, kw):
                        yield ('table%d%s' % (idx, vlabel), va, dict(vkw, seed=0))
            progs.append((nm, nm, b))
            continue
        req = [p for p in params if p.default is inspect._empty]
        opt = [p for p in params if p.default is not inspect._empty]
        if not req or req[0].name not in MATRIX_PARAMS:
            uncovered.append(nm)
            continue
        rest = req[1:]
        if any(p.name not in SCALARS and p.name not in ('ci',) for p in rest) or \
                any(p.name not in FLAG_VALUES and p.name not in SCALARS for p in opt):
            uncovered.append(nm)
            continue
        flag_names = [p.name for p in opt if p.name in FLAG_VALUES]
        # every numeric scalar parameter (required, or optional and not a flag) also at the boundary values, one at a time
        opt_scalars = [p.name for p in opt if p.name in SCALARS and p.name not in FLAG_VALUES]
        scalar_sets = [(None, None)] + [(nm2, type(SCALARS[nm2])(bv)) for nm2 in
                                        [p.name for p in rest if p.name in SCALARS] + opt_scalars
                                        for bv in BOUNDARY if bv != SCALARS[nm2]]
        for combo in itertools.product(*[FLAG_VALUES[k] for k in flag_names]):
            kw = dict(zip(flag_names, combo))
            label = nm + ('[' + ','.join('%s=%s' % kv for kv in kw.items()) + ']' if kw else '')

            def b(mats, rest=rest, kw=kw, scalar_sets=scalar_sets, opt_scalars=opt_scalars):
                allm = dict(mats)
                allm.update(small_matrices())
                for mname, M in allm.items():
                    extra_sets = [{}]
                    if any(p.name == 'ci' for p in rest):
                        extra_sets = [{'ci': v} for v in community_vectors(len(M)).values()]
                    for ex in extra_sets:
                        for sname, sval in scalar_sets:
                            args = [keep_layout(M)]
                            for p in rest:
                                args.append(ex['ci'].copy() if p.name == 'ci' else
                                            (sval if p.name == sname else SCALARS[p.name]))
                            kw2 = dict(kw)
                            if sname in opt_scalars:
                                kw2[sname] = sval
                            yield (mname + ('' if not ex else '/ci') + ('' if sname is None else '/%s=%s' % (sname, sval)),
                                   args, kw2)
            progs.append((label, nm, b))
    return progs, uncovered


def _floyd(M):
    with np.errstate(all='ignore'):
        return bct.distance_wei_floyd(M.copy())


def _transition(M):
    B = (M != 0).astype(float)
    rs = B.sum(axis=1, keepdims=True)
    return B / np.where(rs == 0, 1, rs)


def sp_pairs(pairs):
    def b(mats):
        for mname, M in mats.items():
            try:
                items = list(pairs(mname, M))
            except Exception:           # an input that cannot be prepared for this matrix variant
                continue
            for label, a, kw in items:
                yield (mname + '/' + label, a, kw)
    return b


SPECIAL = {
    'agreement': sp_pairs(lambda mn, M: [('ci', [np.array([cv for cv in community_vectors(len(M)).values() if cv.ndim == 1 and cv.dtype.kind == 'i']).T], {})]),
    'agreement_weighted': sp_pairs(lambda mn, M: [('ci', [np.array([cv for cv in community_vectors(len(M)).values() if cv.ndim == 1 and cv.dtype.kind == 'i']),
                                                            np.array([1.0, 2.0, 3.0])], {})]),
    'dummyvar': sp_pairs(lambda mn, M: [('cis', [np.array([cv for cv in community_vectors(len(M)).values() if cv.ndim == 1 and cv.dtype.kind == 'i']).T], {})]),
    'ci2ls': sp_pairs(lambda mn, M: [(k, [v.copy()], {}) for k, v in community_vectors(len(M)).items()]),
    'ls2ci': sp_pairs(lambda mn, M: [('ls', [[[0, 1], [2, 3, 4]]], {'zeroindexed': z}) for z in (False, True)]),
    'partition_distance': sp_pairs(lambda mn, M: [(k, [v.copy(), community_vectors(len(M))['contiguous'][::-1].copy()], {})
                                                   for k, v in community_vectors(len(M)).items()]),
    'charpath': sp_pairs(lambda mn, M: [('D', [bct.distance_bin(M)], {'include_diagonal': a, 'include_infinite': b})
                                        for a in (False, True) for b in (True, False)]),
    'rout_efficiency': sp_pairs(lambda mn, M: [('D', [M.copy()], {'transform': tr}) for tr in (None, 'inv', 'log')]),
    'cycprob': sp_pairs(lambda mn, M: [('Pq', [np.ones((len(M), len(M), 4)) + np.eye(len(M))[:, :, None]], {})]),
    'findpaths': sp_pairs(lambda mn, M: [('src', [M.copy(), 3, np.array([0, 1])], {'savepths': s}) for s in (False, True)]),
    'retrieve_shortest_path': sp_pairs(lambda mn, M: [('floyd', [0, len(M) - 1, _floyd(M)[1], _floyd(M)[2]], {})]),
    'navigation_wu': sp_pairs(lambda mn, M: [('L,D', [M.copy(), np.abs(np.subtract.outer(np.arange(len(M)), np.arange(len(M)))) + 1.0],
                                              {'max_hops': mh}) for mh in (None, 2)]),
    'pagerank_centrality': sp_pairs(lambda mn, M: [('falff', [M.copy(), 0.85], {'falff': fa})
                                                    for fa in (None, np.arange(1.0, len(M) + 1))]),
    'modularity_und': sp_pairs(lambda mn, M: [('kci', [M.copy()], {'kci': v}) for v in [None] + list(community_vectors(len(M)).values())]),
    'modularity_dir': sp_pairs(lambda mn, M: [('kci', [M.copy()], {'kci': v}) for v in [None] + list(community_vectors(len(M)).values())]),
    'modularity_und_sign': sp_pairs(lambda mn, M: [(k + qt, [M.copy(), v.copy()], {'qtype': qt})
                                                    for k, v in community_vectors(len(M)).items() for qt in ('sta', 'gja')]),
    'corr_flat_und': sp_pairs(lambda mn, M: [('a1a2', [M.copy(), M.T.copy() * 0.5 + 0.1], {})]),
    'corr_flat_dir': sp_pairs(lambda mn, M: [('a1a2', [M.copy(), M.T.copy() * 0.5 + 0.1], {})]),
    'dice_pairwise_und': sp_pairs(lambda mn, M: [('a1a2', [M.copy(), np.roll(M, 1, axis=0)], {})]),
    'resource_efficiency_bin': sp_pairs(lambda mn, M: [('lamb', [M.copy(), 0.5], {}),
                                                        ('spl', [M.copy(), 0.5], {'spl': bct.distance_bin(M)}),
                                                        ('m', [M.copy(), 0.5], {'m': _transition(M)}),
                                                        ('spl+m', [M.copy(), 0.5], {'spl': bct.distance_bin(M), 'm': _transition(M)})]),
    'cuberoot': sp_pairs(lambda mn, M: [('x', [M.copy()], {})]),
    'reorder_mod': sp_pairs(lambda mn, M: [(k, [M.copy(), v.copy()], {}) for k, v in community_vectors(len(M)).items()]),
    'align_matrices': sp_pairs(lambda mn, M: [('m1m2', [M.copy(), np.roll(np.roll(M, 1, 0), 1, 1)], {'H': 30, 'Hbrk': 3})]),
    'reorder_matrix': sp_pairs(lambda mn, M: [('m1', [M.copy()], {'H': 30, 'Hbrk': 3, 'cost': c}) for c in ('line', 'circ')]),
    'reorderMAT': sp_pairs(lambda mn, M: [('m', [M.copy()], {'H': 30, 'cost': c}) for c in ('line', 'circ')]),
    'find_motif34': sp_pairs(lambda mn, M: [('id', [3], {'n': 3}), ('mat', [np.array([[0, 1, 0], [0, 0, 1], [1, 0, 0]])], {})]),
    'generate_fc': sp_pairs(lambda mn, M: [('stub', [M.copy(), 1.0], {})]),
    'breadth': sp_pairs(lambda mn, M: [('src', [M.copy(), 0], {})]),
    'clique_communities': sp_pairs(lambda mn, M: [('cq', [M.copy(), 2], {})]),
    'backbone_wu': sp_pairs(lambda mn, M: [('avgdeg', [M.copy(), 2], {})]),
    'grid_communities': sp_pairs(lambda mn, M: [(k, [v.copy()], {}) for k, v in community_vectors(len(M)).items()]),
    'weight_conversion': sp_pairs(lambda mn, M: [(w, [M.copy(), w], {'copy': True}) for w in ('binarize', 'normalize', 'lengths')]),
    'logtransform': sp_pairs(lambda mn, M: [('pos', [np.abs(M) / (np.abs(M).max() + 1.0) + 0.05], {'copy': True})]),
    'core_periphery_dir': sp_pairs(lambda mn, M: [('C0', [M.copy()], {'seed': 0}),
                                                   ('C0given', [M.copy()], {'C0': np.array(([1, 0, 1, 0, 1, 0])[:len(M)]), 'seed': 0})]),
}


def snap(x):
    if isinstance(x, np.ndarray):
        return ('A', x.tobytes() if x.dtype != object else repr(x.tolist()), x.dtype.str, x.shape, x.strides,
                bool(x.flags.writeable))
    if isinstance(x, (list, tuple)):
        return ('L', tuple(snap(v) for v in x))
    if isinstance(x, dict):
        return ('D', tuple((k, snap(v)) for k, v in sorted(x.items(), key=lambda kv: str(kv[0]))))
    return ('S', repr(x))


PROGS = None


def plan(ctx):
    progs, uncovered = build_programs()
    units = [('prog', i) for i in range(len(progs))] + [('meta', -1)]
    # randomised routines: also along the first generator-answer paths (a mutation may sit on a retry / rejection branch
    # that one integer seed never takes)
    for name in sorted(stb.TABLE):
        if isinstance(stb.TABLE[name], list):
            for idx in range(len(stb.TABLE[name])):
                units.append(('paths', (name, idx, 2000 if ctx.thorough else 200)))
    return units


def explore_paths(t, name, idx, cap):
    from bctmc.explorer import Explorer
    from bctmc.runner import quiet
    args0, kw0 = stb.TABLE[name][idx]
    state = {}

    def run(rng):
        args = stb.clone(args0)
        kw = stb.clone(kw0)
        state['args'], state['kw'] = args, kw
        state['before'] = ([snap(a) for a in args], {k: snap(v) for k, v in kw.items()})
        return getattr(bct, name)(*args, **dict(kw, seed=rng))

    def changed():
        if 'args' not in state:
            return None
        ba, bk = state['before']
        for pos, (a, b) in enumerate(zip(state['args'], ba)):
            if snap(a) != b:
                return 'positional %d' % pos
        for k, b in bk.items():
            if snap(state['kw'][k]) != b:
                return 'keyword %s' % k
        return None

    def on_complete(status, value, trace):
        t.c['evaluations'] += 1
        which = changed()
        if which:
            t.viol(name, 'argument_unchanged', {'program': name + ' (scripted generator)', 'args_index': idx,
                                                'answers': list(trace), 'which': which}, tags={'outcome': status})
            return True
        return False
    ex = Explorer(run, max_executions=cap, max_seconds=60)
    with quiet():
        st = ex.explore(on_complete)
    t.c['path_executions'] += st['executions']
    t.c['nontrivial'] += 1 if st['completed'] else 0


def work(unit):
    global PROGS
    t = Tally(PROPERTY)
    if PROGS is None:
        PROGS = build_programs()
    progs, uncovered = PROGS
    if unit[0] == 'meta':
        for nm in uncovered:
            t.note('public function without a synthesised call (uncovered): ' + nm)
        for nm, why in EXCLUDED.items():
            t.note('excluded: %s (%s)' % (nm, why))
        t.c['uncovered_public_functions'] = len(uncovered)
        t.c['programs'] = len(progs)
        return t
    if unit[0] == 'paths':
        explore_paths(t, *unit[1])
        return t
    label, fname, builder = progs[unit[1]]
    f = getattr(bct, fname)
    mats = matrices()
    returned = 0
    for inp, args, kw in builder(mats):
        before_a = [snap(a) for a in args]
        before_k = {k: snap(v) for k, v in kw.items()}
        st, out = guarded(f, *args, _timeout=20, **kw)
        t.c['evaluations'] += 1
        if st == 'ok':
            returned += 1
        elif st == 'timeout':
            t.c['timeouts'] += 1
        for pos, (a, b) in enumerate(zip(args, before_a)):
            if snap(a) != b:
                t.viol(fname, 'argument_unchanged', {'program': label, 'input': inp, 'position': pos,
                                                     'argument_before': _restore(b), 'kwargs': {k: str(v)[:60] for k, v in kw.items()}},
                       observed=a, tags={'outcome': st, 'position': pos})
        for k, b in before_k.items():
            if snap(kw[k]) != b:
                t.viol(fname, 'argument_unchanged', {'program': label, 'input': inp, 'keyword': k,
                                                     'argument_before': _restore(b)},
                       observed=kw[k], tags={'outcome': st, 'keyword': k})
    if returned:
        t.c['nontrivial'] += 1
        if unit[1] % 17 == 3:
            t.sample({'program': label, 'inputs': 'all matrix variants', 'returned_normally_on': returned})
    else:
        t.c['programs_that_always_raise'] += 1
        t.note('never returned normally: ' + label)
    return t


def _restore(s):
    if s[0] == 'A' and isinstance(s[1], bytes):
        return np.frombuffer(s[1], dtype=np.dtype(s[2])).reshape(s[3]).tolist() if len(s[1]) else []
    return str(s)[:200]


def replay(rec):
    t = Tally(PROPERTY)
    if 'answers' in rec['case']:
        explore_paths(t, rec['function'], rec['case']['args_index'], 2000)
        return t
    progs, _ = build_programs()
    for i, (label, fname, builder) in enumerate(progs):
        if label == rec['case']['program']:
            t.merge(work(('prog', i)))
    return t
