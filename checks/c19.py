"""C19 - NBS reports true suprathreshold components and correct permutation p-values.

Engine A (rngmc): for every configuration (per-edge subject profiles x group sizes x threshold x
tail x paired) EVERY subject relabelling the generator can answer is scripted (k=1: the full
(nx+ny)! menu / all 2^nx sign patterns; k=2 for the 2+2 design) and every returned null value is
recomputed for the relabelling that was actually scripted.  Engine B: invariances of the observed
components.
"""
import itertools

import numpy as np

import bct
from bctmc.explorer import Explorer, replay_answers
from bctmc import smallscope as ss
from bctmc.runner import quiet, guarded
from bctmc.tally import Tally

PROPERTY = 'C19'
RULE = ('3-node designs: all 5^3 assignments of the edge profiles {large +, large -, small +, no effect, constant} (6^3 with '
        '"constant difference" for the paired design), group sizes (2,2),(2,3),(3,2) unpaired and (3,3) paired, threshold in '
        '{0.5, 3} and a threshold exactly equal to an attained statistic (profile with t = 2.0), tail in {both,left,right}; k=1 with the full relabelling menu (24 / 120 orders, 8 sign patterns), k=2 for '
        '(2,2) on a subset, 6-7 node designs with three observed components, 9-node two-component designs (thorough: 4-node designs on a fixed profile set); data also multiplied by 2^-60 and 2^60; a NaN measurement on one connection; subject stacks also as uint16 / int16 / uint8 / int64 arrays on integer-valued profiles; non-trivial = configuration with at least one '
        'observed component (not rejected as "unsuitable threshold") and >= 2 distinct null values over the relabellings')
ASSUMPTIONS = ['t statistics re-derived from their definitions in this file (zero pooled variance => 0 as the library '
               'documents by construction; paired zero variance follows IEEE: +-inf exceeds, nan does not)',
               'uniform draws of the paired sign flips are represented by 0.25 / 0.75 (sign + / -)']

PROFILES = {
    'P': ([5, 6, 7], [1, 2, 3]),
    'N': ([1, 2, 3], [5, 6, 7]),
    'S': ([2, 4, 3], [1, 3, 2.5]),
    'Z': ([1, 3, 2], [3, 1, 2]),
    'C': ([2, 2, 2], [2, 2, 2]),
    'D': ([3, 4, 5], [1, 2, 3]),          # constant paired difference (zero variance of the difference)
    'Q': ([5, 1, 5], [6, 2, 1]),          # effect only under the cross grouping {x0,y0} | {x1,y1}
    '0': ([2, 3, 2.5], [2.5, 2, 3]),      # nothing, with variance
    'M': ([5, float('nan'), 7], [1, 2, 3]),   # a missing measurement: the statistic is NaN and NaN exceeds nothing
    'E': ([13, 19, 16], [2, 10, 6]),      # (2,2) design: t = 10/5 = 2.0 exactly, so a threshold of 2.0 sits ON the statistic
}
THRESH = (0.5, 3.0)
TAILS = ('both', 'left', 'right')


def build(n, profile, nx, ny):
    pairs = ss.und_pairs(n)
    x = np.zeros((n, n, nx))
    y = np.zeros((n, n, ny))
    for (a, b), p in zip(pairs, profile):
        xv, yv = PROFILES[p]
        for s in range(nx):
            x[a, b, s] = x[b, a, s] = xv[s]
        for s in range(ny):
            y[a, b, s] = y[b, a, s] = yv[s]
    return x, y


def catalogue(thorough):
    cfgs = []
    for prof in itertools.product('PNSZC', repeat=3):
        for (nx, ny) in ((2, 2), (2, 3), (3, 2)):
            for thr in THRESH:
                for tail in TAILS:
                    cfgs.append({'n': 3, 'profile': ''.join(prof), 'nx': nx, 'ny': ny, 'thresh': thr, 'tail': tail,
                                 'paired': False, 'k': 1})
    for prof in itertools.product('PNSZCD', repeat=3):
        for thr in THRESH:
            for tail in TAILS:
                cfgs.append({'n': 3, 'profile': ''.join(prof), 'nx': 3, 'ny': 3, 'thresh': thr, 'tail': tail,
                             'paired': True, 'k': 1})
    for prof in ('PPP', 'PNZ', 'PSC', 'NNS', 'SSZ', 'PZC', 'PSN'):
        for tail in TAILS:
            cfgs.append({'n': 3, 'profile': prof, 'nx': 2, 'ny': 2, 'thresh': 0.5, 'tail': tail, 'paired': False,
                         'k': 2})
            cfgs.append({'n': 3, 'profile': prof, 'nx': 3, 'ny': 3, 'thresh': 0.5, 'tail': tail, 'paired': True,
                         'k': 2})
    # the progress-printing mode is the same computation
    for prof in ('PPP', 'PNZ', 'PSC', 'NNS', 'PZC'):
        for tail in TAILS:
            cfgs.append({'n': 3, 'profile': prof, 'nx': 2, 'ny': 3, 'thresh': 0.5, 'tail': tail, 'paired': False,
                         'k': 2, 'verbose': True})
            cfgs.append({'n': 3, 'profile': prof, 'nx': 3, 'ny': 3, 'thresh': 0.5, 'tail': tail, 'paired': True,
                         'k': 2, 'verbose': True})
    # subject stacks stored in narrow / unsigned integer types (streamline counts): same statistics as for float64
    for prof in ('PPP', 'PNZ', 'NNZ', 'PZC', 'NPQ', 'DNZ', 'PNE'):
        for dt in ('uint16', 'int16', 'uint8', 'int64'):
            for tail in TAILS:
                cfgs.append({'n': 3, 'profile': prof, 'nx': 2, 'ny': 3, 'thresh': 0.5, 'tail': tail, 'paired': False,
                             'k': 1, 'dtype': dt})
                cfgs.append({'n': 3, 'profile': prof, 'nx': 3, 'ny': 3, 'thresh': 0.5, 'tail': tail, 'paired': True,
                             'k': 1, 'dtype': dt})
    # a missing (NaN) measurement on one connection
    for prof in ('PMP', 'MPN', 'PPM', 'MMP', 'PMZ', 'NMS'):
        for tail in TAILS:
            for thr in THRESH:
                cfgs.append({'n': 3, 'profile': prof, 'nx': 2, 'ny': 3, 'thresh': thr, 'tail': tail, 'paired': False, 'k': 1})
                cfgs.append({'n': 3, 'profile': prof, 'nx': 3, 'ny': 3, 'thresh': thr, 'tail': tail, 'paired': True, 'k': 1})
    # the unit the weights are expressed in (data multiplied by 2^-60 / 2^60): the statistic is scale-free
    for prof in ('PPP', 'PNZ', 'PSC', 'NNS', 'SSZ', 'PZC'):
        for sc in (-60, 60):
            for tail in TAILS:
                cfgs.append({'n': 3, 'profile': prof, 'nx': 2, 'ny': 3, 'thresh': 0.5, 'tail': tail, 'paired': False,
                             'k': 1, 'scale': sc})
                cfgs.append({'n': 3, 'profile': prof, 'nx': 3, 'ny': 3, 'thresh': 0.5, 'tail': tail, 'paired': True,
                             'k': 1, 'scale': sc})
    four = ['PPZZNN', 'PPPZZZ', 'PZPZSZ', 'PNCZSP', 'SSSSSS', 'PZZZZP', 'NNZZCC', 'PPNNZZ']
    if thorough:
        four += [''.join(p) for p in itertools.product('PNZ', repeat=6)][::5]
    for prof in four:
        for (nx, ny, paired) in ((2, 2, False), (2, 3, False), (3, 3, True)):
            for tail in TAILS:
                cfgs.append({'n': 4, 'profile': prof, 'nx': nx, 'ny': ny, 'thresh': 0.5, 'tail': tail,
                             'paired': paired, 'k': 1})
    # thresholds that coincide exactly with an attained statistic (strict '>' on observed and relabelled data alike)
    for prof in itertools.product('PEZ', repeat=3):
        if 'E' not in prof:
            continue
        for tail in TAILS:
            cfgs.append({'n': 3, 'profile': ''.join(prof), 'nx': 2, 'ny': 2, 'thresh': 2.0, 'tail': tail,
                         'paired': False, 'k': 1})
    # 9-node designs whose relabelled data split into two components where the one with more nodes has fewer
    # connections (4-clique vs 5-star): "largest" must be measured in connections
    pairs9 = ss.und_pairs(9)
    clique = {(a, b) for a in range(4) for b in range(a + 1, 4)}
    star = {(4, b) for b in range(5, 9)}
    for lone in ('P', 'N'):
        for big in ('Q',):
            prof = ''.join(big if (e in clique or e in star) else ('0' if e != (7, 8) else lone) for e in pairs9)
            for tail in TAILS:
                cfgs.append({'n': 9, 'profile': prof, 'nx': 2, 'ny': 2, 'thresh': 3.0, 'tail': tail, 'paired': False,
                             'k': 1})
    # three (and more) observed components: 6 nodes with three disjoint effects, 7 nodes with a triangle, an edge and
    # a two-edge path
    p6 = ss.und_pairs(6)
    p7 = ss.und_pairs(7)
    three6 = {(0, 1): 'P', (2, 3): 'N', (4, 5): 'P'}
    three7 = {(0, 1): 'P', (1, 2): 'P', (0, 2): 'P', (3, 4): 'P', (5, 6): 'P', (4, 5): 'Z'}
    mixed7 = {(0, 1): 'P', (1, 2): 'P', (0, 2): 'P', (3, 4): 'N', (4, 5): 'N', (2, 6): 'S'}
    for pairs_, design in ((p6, three6), (p7, three7), (p7, mixed7)):
        prof = ''.join(design.get(e, '0') for e in pairs_)
        n_ = 6 if pairs_ is p6 else 7
        for tail in TAILS:
            for (nx, ny, paired) in ((2, 2, False), (3, 3, True)):
                cfgs.append({'n': n_, 'profile': prof, 'nx': nx, 'ny': ny, 'thresh': 0.5, 'tail': tail,
                             'paired': paired, 'k': 1})
    if thorough:
        for prof in ('PPP', 'PNZ', 'PSC'):
            for tail in TAILS:
                cfgs.append({'n': 3, 'profile': prof, 'nx': 3, 'ny': 3, 'thresh': 0.5, 'tail': tail,
                             'paired': False, 'k': 1})
    return cfgs


def plan(ctx):
    cf = catalogue(ctx.thorough)
    units = [('explore', cf[k:k + 25]) for k in range(0, len(cf), 25)]
    profs = [''.join(p) for p in itertools.product('PNSZC', repeat=3)]
    for k in range(0, len(profs), 16):
        units.append(('invariance', profs[k:k + 16]))
    return units


# --- reference statistics ---------------------------------------------------------------------

def t_unpaired(a, b, tail):
    a, b = np.asarray(a, dtype=float), np.asarray(b, dtype=float)
    n1, n2 = len(a), len(b)
    ssq = sum((v - a.mean()) ** 2 for v in a) + sum((v - b.mean()) ** 2 for v in b)
    sp = np.sqrt(ssq / (n1 + n2 - 2))
    den = sp * np.sqrt(1.0 / n1 + 1.0 / n2)
    if den == 0:
        return 0.0
    t = (a.mean() - b.mean()) / den
    return abs(t) if tail == 'both' else (-t if tail == 'left' else t)


def t_paired(a, b, tail):
    d = np.asarray(a, dtype=float) - np.asarray(b, dtype=float)
    n = len(d)
    sd = np.sqrt(sum((v - d.mean()) ** 2 for v in d) / (n - 1))
    with np.errstate(all='ignore'):
        t = np.float64(d.mean()) / np.float64(sd) * np.sqrt(n)
    return abs(t) if tail == 'both' else (-t if tail == 'left' else t)


def supra_components(n, X, Y, thresh, tail, paired):
    """X[m,nx], Y[m,ny] edge-by-subject; returns (edges list, components as list of edge sets)."""
    pairs = ss.und_pairs(n)
    f = t_paired if paired else t_unpaired
    edges = [pairs[e] for e in range(len(pairs)) if f(X[e], Y[e], tail) > thresh]
    A = np.zeros((n, n))
    for (a, b) in edges:
        A[a, b] = A[b, a] = 1
    lab = ss.bfs_components(A)
    comps = {}
    for (a, b) in edges:
        comps.setdefault(lab[a], []).append((a, b))
    return edges, list(comps.values())


def mats(cfg):
    x, y = build(cfg['n'], cfg['profile'], cfg['nx'], cfg['ny'])
    if cfg.get('scale'):
        x, y = x * 2.0 ** cfg['scale'], y * 2.0 ** cfg['scale']      # a power of two: exact, the t statistics do not change
    pairs = ss.und_pairs(cfg['n'])
    X = np.array([[x[a, b, s] for s in range(cfg['nx'])] for (a, b) in pairs])
    Y = np.array([[y[a, b, s] for s in range(cfg['ny'])] for (a, b) in pairs])
    return x, y, X, Y


def judge(t, cfg, status, value, values, case_fn):
    n, nx, ny, k = cfg['n'], cfg['nx'], cfg['ny'], cfg['k']
    x, y, X, Y = mats(cfg)
    edges, comps = supra_components(n, X, Y, cfg['thresh'], cfg['tail'], cfg['paired'])
    if status != 'ok':
        if isinstance(value, bct.BCTParamError) and not edges and 'Unsuitable threshold' in str(value):
            t.c['documented_rejections'] += 1
            return False
        t.viol('nbs_bct', 'raises' if status == 'exc' else 'does_not_terminate', case_fn(), observed=value,
               tags={'suprathreshold_edges': len(edges)})
        return True
    if not edges:
        t.viol('nbs_bct', 'rejects_when_nothing_exceeds_threshold', case_fn(), observed='returned')
        return True
    pvals, adj, null = value
    adj = np.asarray(adj, dtype=float)
    bad = False
    exp_support = np.zeros((n, n), dtype=bool)
    for (a, b) in edges:
        exp_support[a, b] = exp_support[b, a] = True
    if adj.shape != (n, n) or not np.array_equal(adj != 0, exp_support):
        t.viol('nbs_bct', 'adj_marks_exactly_suprathreshold_connections', case_fn(), observed=adj, expected=exp_support)
        return True
    if not np.array_equal(adj, adj.T):
        t.viol('nbs_bct', 'adj_symmetric', case_fn(), observed=adj)
        bad = True
    labels = {}
    for ci, comp in enumerate(comps):
        ls = {adj[a, b] for (a, b) in comp}
        if len(ls) != 1:
            t.viol('nbs_bct', 'adj_labelled_by_component', case_fn(), observed=adj, expected=comps)
            return True
        labels[ci] = ls.pop()
    if sorted(labels.values()) != [float(i + 1) for i in range(len(comps))]:
        t.viol('nbs_bct', 'adj_labelled_by_component', case_fn(), observed=adj, expected=comps)
        return True
    pvals = np.asarray(pvals, dtype=float)
    null = np.asarray(null, dtype=float)
    if pvals.shape != (len(comps),):
        t.viol('nbs_bct', 'one_pvalue_per_component', case_fn(), observed=pvals, expected=len(comps))
        return True
    if null.shape != (k,):
        t.viol('nbs_bct', 'k_null_values', case_fn(), observed=null.shape, expected=k)
        return True
    for ci, comp in enumerate(comps):
        lab = int(labels[ci])
        exp_p = np.sum(null >= len(comp)) / float(k)
        if abs(pvals[lab - 1] - exp_p) > 1e-12:
            t.viol('nbs_bct', 'pvalue_is_fraction_of_null_at_least_component_size', case_fn(), observed=pvals,
                   expected=exp_p, detail={'null': null, 'component_edges': len(comp)})
            bad = True
    # every null value recomputed for the relabelling that was scripted
    draws = [v for (kind, v) in values]
    if len(draws) != k:
        t.viol('nbs_bct', 'one_relabelling_per_null_value', case_fn(), observed=len(draws), expected=k)
        return True
    allv = np.hstack((X, Y))
    for u in range(k):
        if cfg['paired']:
            sign = np.sign(0.5 - np.asarray(draws[u], dtype=float).ravel())
            Xp, Yp = X * sign, Y * sign
        else:
            perm = np.asarray(draws[u]).ravel().astype(int)
            d = allv[:, perm]
            Xp, Yp = d[:, :nx], d[:, nx:]
        _, pc = supra_components(n, Xp, Yp, cfg['thresh'], cfg['tail'], cfg['paired'])
        exp_null = max([len(c) for c in pc]) if pc else 0
        if null[u] != exp_null:
            t.viol('nbs_bct', 'null_value_is_largest_component_under_relabelling', case_fn(), observed=null,
                   expected=exp_null, detail={'relabelling': draws[u], 'step': u},
                   tags={'unequal_groups': nx != ny, 'paired': cfg['paired']})
            bad = True
            break
    return bad


def explore(cfg):
    t = Tally(PROPERTY)
    x, y, _, _ = mats(cfg)

    def call(rng):
        dt = cfg.get('dtype')
        return bct.nbs_bct(x.astype(dt) if dt else x.copy(), y.astype(dt) if dt else y.copy(), cfg['thresh'], k=cfg['k'],
                           tail=cfg['tail'], paired=cfg['paired'], verbose=bool(cfg.get('verbose', False)), seed=rng)
    nulls = set()
    ex = Explorer(call, vec_unit_points=(0.25, 0.75), max_executions=100000)

    def on_complete(status, value, trace):
        bad = judge(t, cfg, status, value, list(ex.values), lambda: {'config': cfg, 'answers': list(trace)})
        if status == 'ok':
            nulls.add(tuple(np.asarray(value[2]).tolist()))
        if not bad and not t.samples and trace and status == 'ok':
            t.sample({'config': cfg, 'answers': list(trace)}, order=hash(cfg['profile']) % 1000)
        return bad
    with quiet():
        st = ex.explore(on_complete)
    t.c['configs'] += 1
    t.c['evaluations'] += st['completed']
    t.c['executions'] += st['executions']
    t.c['states'] += st['states']
    t.c['transitions'] += st['transitions']
    if len(nulls) >= 2:
        t.c['nontrivial'] += 1
    for kk in ('horizon_hits', 'timeouts', 'opaque_states', 'unmodelled_draws'):
        if st[kk]:
            t.flags[kk] += st[kk]
    if st['capped']:
        t.flags['execution_cap_hit'] += 1
    return t


def observed(x, y, thresh, tail, paired):
    st, out = guarded(bct.nbs_bct, x.copy(), y.copy(), thresh, k=1, tail=tail, paired=paired, seed=0)
    if st != 'ok':
        return ('exc', type(out).__name__)
    return ('ok', (np.asarray(out[1]) != 0))


def invariance(t, prof):
    other = {'left': 'right', 'right': 'left', 'both': 'both'}
    for (nx, ny, paired) in ((2, 3, False), (3, 2, False), (3, 3, False), (3, 3, True)):
        x, y = build(3, prof, nx, ny)
        for thr in THRESH:
            for tail in TAILS:
                base = observed(x, y, thr, tail, paired)
                case = {'profile': prof, 'nx': nx, 'ny': ny, 'thresh': thr, 'tail': tail, 'paired': paired}
                t.c['evaluations'] += 1
                sw = observed(y, x, thr, other[tail], paired)
                if not same_obs(base, sw):
                    t.viol('nbs_bct', 'invariant_under_group_swap_with_tail', case, observed=sw, expected=base)
                for permx in itertools.permutations(range(nx)):
                    for permy in (itertools.permutations(range(ny)) if not paired else [permx]):
                        r = observed(x[:, :, list(permx)], y[:, :, list(permy)], thr, tail, paired)
                        t.c['evaluations'] += 1
                        if not same_obs(base, r):
                            t.viol('nbs_bct', 'invariant_under_subject_reordering', case, observed=r, expected=base,
                                   tags={'permx': list(permx), 'permy': list(permy)})


def same_obs(a, b):
    if a[0] != b[0]:
        return False
    if a[0] == 'exc':
        return a[1] == b[1]
    return np.array_equal(a[1], b[1])


def work(unit):
    t = Tally(PROPERTY)
    if unit[0] == 'explore':
        for cfg in unit[1]:
            t.merge(explore(cfg))
    else:
        for prof in unit[1]:
            invariance(t, prof)
    return t


def coverage(ctx, total):
    c = total.c
    return {'states': int(c['states']), 'transitions': int(c['transitions']),
            'traces_validated_against_impl': int(c['executions'])}


def replay(rec):
    t = Tally(PROPERTY)
    case = rec['case']
    if 'config' not in case:
        invariance(t, case['profile'])
        return t
    cfg = case['config']
    x, y, _, _ = mats(cfg)

    def call(rng):
        dt = cfg.get('dtype')
        return bct.nbs_bct(x.astype(dt) if dt else x.copy(), y.astype(dt) if dt else y.copy(), cfg['thresh'], k=cfg['k'],
                           tail=cfg['tail'], paired=cfg['paired'], verbose=bool(cfg.get('verbose', False)), seed=rng)
    with quiet():
        status, value, _ = replay_answers(call, case['answers'], vec_unit_points=(0.25, 0.75))
    judge(t, cfg, status, value, list(getattr(replay_answers, 'last_values', [])), lambda: case)
    return t
