"""C03 - shortest-path distance matrices equal true minimum path lengths.

Engine B: every labelled (di)graph up to a node bound, binary / small integer
lengths / dyadic weights for the 'inv' and 'log' transforms, against an
exact-hop-count min-plus dynamic programme and BFS.
"""
import numpy as np

import bct
from bctmc import smallscope as ss
from bctmc import oracles as orc
from bctmc import named
from bctmc.runner import guarded
from bctmc.tally import Tally
from bctmc import dtypes

PROPERTY = 'C03'
RULE = ('on the same families: self-connections on the diagonal change nothing; eight structured graphs on 144-300 nodes (incl. K260, star300, path300) (bctmc/named.py large_undirected) for distance_bin/breadthdist/reachdist; element types: every routine also on int64 / int32 / uint8 / bool copies of all 3-node digraphs over {0,1} and {0,1,2}, 4-node graphs over {0,1,2}, 5-node binary graphs (same values as for float64; integers must not raise, a boolean matrix may be rejected with TypeError); every free tree on 8 nodes under the scan orders of bctmc/trees.py (951 labelled trees, 0/1); a fixed family of ~100 structured graphs on 7-10 nodes (bctmc/named.py: paths, cycles, stars, wheels, cliques, '
        'bipartite, ladders, trees, unions with isolated nodes, DAGs, tournaments; binary, lengths {1,2},{1,2,3}, near-tie) and '
        'every labelled digraph / undirected graph of the stated families (binary n<=4 dir, n<=5 und, and the five-node digraphs with <= 8 connections (thorough: all 2^20) for distance_bin/breadthdist/reachdist (reachdist with ensure_binary True and False); '
        'lengths {1,2,3} and the near-tie alphabet {1, 2, 2+2^-20} (1+1 is shorter than 2+2^-20 by less than any common tolerance) on 3-node digraphs and 4-node graphs; weights {1,1/2,1/4} for inv/log; thorough adds '
        'lengths {1,2} on all 4-node digraphs and 5-node graphs, binary n=6 und, n=5 dir with <=... see families '
        'counter); non-trivial = graph with an unreachable ordered pair and a pair at distance >= 2 hops, or '
        '(weighted) a pair whose minimum length is attained with two different hop counts (tie)')
ASSUMPTIONS = ['float64 inputs; lengths are small integers or dyadic so sums are exact',
               'reference: min-plus dynamic programme over exact hop counts and BFS (bctmc/oracles.py)',
               "for 'log' weight 1 gives zero-length edges: allowed hop counts are those of minimum-length "
               'walks with at most n-1 edges']

BIN = (0, 1)
FAMILIES = {
    # name: (kind, directed, n, alphabet, tiers)
    'bin_dir2': ('bin', True, 2, BIN, 'q'), 'bin_dir3': ('bin', True, 3, BIN, 'q'),
    'bin_dir4': ('bin', True, 4, BIN, 'q'),
    'bin_dir5_reach': ('reach', True, 5, BIN, 'q'),      # all 2^20 digraphs, the three binary reachability routines only
    'bin_und3': ('bin', False, 3, BIN, 'q'), 'bin_und4': ('bin', False, 4, BIN, 'q'),
    'bin_und5': ('bin', False, 5, BIN, 'q'), 'bin_und6': ('bin', False, 6, BIN, 'q'),
    'len_dir3': ('len', True, 3, (0, 1, 2, 3), 'q'),
    'len_und4': ('len', False, 4, (0, 1, 2, 3), 'q'),
    'len_dir4': ('len', True, 4, (0, 1, 2), 't'),
    'len_und5': ('len', False, 5, (0, 1, 2), 'q'),
    'neartie_dir3': ('len', True, 3, (0, 1, 2, 2 + 2.0 ** -20), 'q'),
    'neartie_und4': ('len', False, 4, (0, 1, 2, 2 + 2.0 ** -20), 'q'),
    'wt_dir3': ('wt', True, 3, (0, 1, 0.5, 0.25), 'q'),
    'wt_und4': ('wt', False, 4, (0, 1, 0.5, 0.25), 'q'),
    'wt_und5': ('wt', False, 5, (0, 1, 0.5), 't'),
}


NAMED = {'named:xlarge_und': 'reach', 'named:bintree8_und': 'bin', 'named:bin_und': 'bin', 'named:bin_dir': 'bin', 'named:len_und': 'len', 'named:len_dir': 'len',
         'named:neartie_und': 'len', 'named:neartie_dir': 'len'}


THOROUGH = [False]


ETYPE_FUNCS = [
    ('distance_bin', bct.distance_bin, None), ('distance_wei', bct.distance_wei, None),
    ('distance_wei_floyd', bct.distance_wei_floyd, None), ('breadthdist', bct.breadthdist, None),
    ('reachdist', bct.reachdist, None), ('efficiency_bin', bct.efficiency_bin, None),
    ('efficiency_wei', bct.efficiency_wei, None),
    ('charpath[distance_bin]', lambda A: bct.charpath(bct.distance_bin(A))[:2], None),
]


def plan(ctx):
    THOROUGH[0] = ctx.thorough
    units = []
    for nm in NAMED:
        tot = len(named.family(nm.split(':')[1]))
        for (a, b) in ss.ranges(tot, 16):
            units.append((nm, a, b))
    for name, (kind, directed, n, alpha, tier) in FAMILIES.items():
        if tier == 't' and not ctx.thorough:
            continue
        tot = ss.dir_count(n, alpha) if directed else ss.und_count(n, alpha)
        for (a, b) in ss.ranges(tot, max(1, min(400, tot // 150))):
            units.append((name, a, b))
    units += dtypes.units(dtypes.STD_FAMILIES)
    return units


def graph(name, idx):
    if name in NAMED:
        return named.family(name.split(':')[1])[idx][1]
    kind, directed, n, alpha, _ = FAMILIES[name]
    return ss.dir_graph(n, alpha, idx) if directed else ss.und_graph(n, alpha, idx)


def cmp_matrix(t, fname, clause, case, got, ref, offdiag_only=False):
    got = np.asarray(got, dtype=float)
    n = len(ref)
    if got.shape != ref.shape:
        t.viol(fname, clause + '_shape', case, observed=got.shape, expected=ref.shape)
        return False
    m = orc.offdiag(n) if offdiag_only else np.ones((n, n), dtype=bool)
    if not orc.close(got[m], ref[m]):
        t.viol(fname, clause, case, observed=got, expected=ref)
        return False
    return True


def cmp_hops(t, fname, case, got, allowed, D):
    got = np.asarray(got, dtype=float)
    n = len(D)
    for u in range(n):
        for v in range(n):
            if u == v or not np.isfinite(D[u, v]):
                continue
            if got[u, v] not in allowed[u][v]:
                t.viol(fname, 'hops', case, observed=got, expected=[[sorted(s) for s in r] for r in allowed],
                       tags={'pair': [u, v]})
                return


def call(t, fname, case, f, *args, **kw):
    st, out = guarded(f, *[a.copy() if isinstance(a, np.ndarray) else a for a in args], **kw)
    if st != 'ok':
        t.viol(fname, 'raises', case, observed=out)
        return None
    return out


def check_lengths(t, case, L, floyd_arg, transform, binary, wei_arg=None):
    """L: connection-length matrix (0 = absent) that defines the truth."""
    n = len(L)
    M = orc.lengths_matrix(L) if transform != 'log' else np.where(
        np.asarray(floyd_arg) != 0, -np.log(np.where(floyd_arg != 0, floyd_arg, 1.0)), np.inf)
    if transform == 'log':
        np.fill_diagonal(M, np.inf)
    D, E = orc.shortest(M)
    allowed = orc.hop_sets(D, E)
    tr = transform or 'none'
    # Floyd-Warshall
    out = call(t, 'distance_wei_floyd', case, bct.distance_wei_floyd, floyd_arg, transform=transform)
    if out is not None:
        SPL, hops, _ = out
        if cmp_matrix(t, 'distance_wei_floyd', 'distance_' + tr, case, SPL, D):
            cmp_hops(t, 'distance_wei_floyd', case, hops, allowed, D)
    # routing efficiency (built on Floyd)
    out = call(t, 'rout_efficiency', case, bct.rout_efficiency, floyd_arg, transform=transform)
    if out is not None:
        GE, Er, _ = out
        inv = 1.0 / np.where(orc.offdiag(n), D, 1.0)
        np.fill_diagonal(inv, 0)
        cmp_matrix(t, 'rout_efficiency', 'pairwise_' + tr, case, Er, inv)
        if n > 1 and not orc.close(GE, np.sum(inv) / (n * n - n)):
            t.viol('rout_efficiency', 'global_' + tr, case, observed=GE, expected=np.sum(inv) / (n * n - n))
    if transform == 'log':
        return D, allowed
    # Dijkstra on the length matrix
    out = call(t, 'distance_wei', case, bct.distance_wei, L)
    if out is not None:
        Dw, B = out
        if cmp_matrix(t, 'distance_wei', 'distance', case, Dw, D):
            cmp_hops(t, 'distance_wei', case, B, allowed, D)
    # weighted efficiency takes WEIGHTS and inverts them itself
    if wei_arg is not None and n > 1:
        e = call(t, 'efficiency_wei', case, bct.efficiency_wei, wei_arg)
        if e is not None:
            inv = 1.0 / np.where(orc.offdiag(n), D, 1.0)
            np.fill_diagonal(inv, 0)
            if not orc.close(e, np.sum(inv) / (n * n - n)):
                t.viol('efficiency_wei', 'global', case, observed=e, expected=np.sum(inv) / (n * n - n))
    # charpath on the true distance matrix
    if n > 1:
        for inc_inf in (True, False):
            out = call(t, 'charpath', case, bct.charpath, D, include_diagonal=False,
                       include_infinite=inc_inf)
            if out is None:
                continue
            lam, eff = out[0], out[1]
            v = D[orc.offdiag(n)]
            if not inc_inf:
                v = v[np.isfinite(v)]
            exp_lam = np.mean(v) if v.size else np.nan
            exp_eff = np.mean(1.0 / v) if v.size else np.nan
            if not orc.close(lam, exp_lam):
                t.viol('charpath', 'lambda', case, observed=lam, expected=exp_lam,
                       tags={'include_infinite': inc_inf})
            if not orc.close(eff, exp_eff):
                t.viol('charpath', 'efficiency', case, observed=eff, expected=exp_eff,
                       tags={'include_infinite': inc_inf})
    if binary:
        Db = orc.bfs_dist(L)
        if not orc.close(Db, D):
            raise RuntimeError('oracle self-check failed: BFS and min-plus disagree on %r' % (L.tolist(),))
        out = call(t, 'distance_bin', case, bct.distance_bin, L)
        if out is not None:
            cmp_matrix(t, 'distance_bin', 'distance', case, out, D)
        for fname, f in (('breadthdist', bct.breadthdist), ('reachdist', bct.reachdist),
                         ('reachdist', lambda A: bct.reachdist(A, ensure_binary=False))):
            out = call(t, fname, case, f, L)
            if out is not None:
                R, Dd = out
                cmp_matrix(t, fname, 'distance', case, Dd, D, offdiag_only=True)
                Rb = np.asarray(R) != 0
                if Rb.shape != D.shape or not np.array_equal(Rb[orc.offdiag(n)], np.isfinite(D)[orc.offdiag(n)]):
                    t.viol(fname, 'reachability_flag', case, observed=Rb, expected=np.isfinite(D))
        if n > 1:
            e = call(t, 'efficiency_bin', case, bct.efficiency_bin, L)
            if e is not None:
                inv = 1.0 / np.where(orc.offdiag(n), D, 1.0)
                np.fill_diagonal(inv, 0)
                if not orc.close(e, np.sum(inv) / (n * n - n)):
                    t.viol('efficiency_bin', 'global', case, observed=e, expected=np.sum(inv) / (n * n - n))
    return D, allowed


def check_reach(t, case, X):
    """distance_bin / breadthdist / reachdist against BFS (cheap: used for the 2^20 five-node digraphs)"""
    n = len(X)
    D = orc.bfs_dist(X)
    off = orc.offdiag(n)
    out = call(t, 'distance_bin', case, bct.distance_bin, X)
    if out is not None:
        cmp_matrix(t, 'distance_bin', 'distance', case, out, D)
    for fname, f in (('breadthdist', bct.breadthdist), ('reachdist', bct.reachdist),
                     ('reachdist', lambda A: bct.reachdist(A, ensure_binary=False))):
        out = call(t, fname, case, f, X)
        if out is not None:
            R, Dd = out
            cmp_matrix(t, fname, 'distance', case, Dd, D, offdiag_only=True)
            Rb = np.asarray(R) != 0
            if Rb.shape != D.shape or not np.array_equal(Rb[off], np.isfinite(D)[off]):
                t.viol(fname, 'reachability_flag', case, observed=Rb, expected=np.isfinite(D))
    fin = np.isfinite(D)
    return (not fin.all()) and bool((D[fin] >= 3).any())


def check_case(t, name, X, case):
    kind = NAMED[name] if name in NAMED else FAMILIES[name][0]
    n = len(X)
    if kind == 'reach':
        return check_reach(t, case, X)
    if kind == 'bin':
        D, allowed = check_lengths(t, case, X, X, None, True, wei_arg=X)
        fin = np.isfinite(D)
        nontriv = (not fin.all()) and bool((D[fin] >= 2).any())
    elif kind == 'len':
        D, allowed = check_lengths(t, case, X, X, None, False)
        nontriv = any(len(allowed[u][v]) > 1 for u in range(n) for v in range(n))
    else:
        L = np.where(X != 0, 1.0 / np.where(X != 0, X, 1.0), 0.0)
        D, allowed = check_lengths(t, case, L, X, 'inv', False, wei_arg=X)
        nontriv = any(len(allowed[u][v]) > 1 for u in range(n) for v in range(n))
        check_lengths(t, case, L, X, 'log', False)
    return nontriv


def work(unit):
    if unit[0] == 'etype':
        return dtypes.work_unit(PROPERTY, ETYPE_FUNCS, unit, selfloop_invariant=('distance_bin', 'distance_wei', 'distance_wei_floyd', 'efficiency_bin', 'efficiency_wei'))
    name, a, b = unit
    t = Tally(PROPERTY)
    for idx in range(a, b):
        if name == 'bin_dir5_reach' and not THOROUGH[0] and bin(idx).count('1') > 8:
            continue            # quick: the 263 950 five-node digraphs with at most 8 connections; thorough: all 2^20
        X = graph(name, idx)
        case = {'family': name, 'index': idx, 'X': X}
        if name in NAMED:
            case['graph'] = named.family(name.split(':')[1])[idx][0]
        t.c['evaluations'] += 1
        t.c['fam_' + name] += 1
        if check_case(t, name, X, case):
            t.c['nontrivial'] += 1
            if idx % 211 == 7:
                t.sample(case, order=-len(X) * 10 ** 7 + idx)
    return t


def replay(rec):
    if rec['case'].get('family') == 'element_types':
        return dtypes.replay(PROPERTY, ETYPE_FUNCS, rec['case'])
    t = Tally(PROPERTY)
    case = rec['case']
    check_case(t, case['family'], np.array(case['X'], dtype=float), case)
    return t
