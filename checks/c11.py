"""C11 - constrained rewiring honours connectivity, lattice cost and forbidden cells.

Engine A (rngmc) on a bridge-rich catalogue for the *_connected routines, latticisers and
randomize_graph_partial_und (all generator answers, state invariant "working matrix is
(strongly) connected at every attempt head"), plus engine B for the rejection clause.
"""
import itertools

import numpy as np

import bct
from bctmc import rewiring as rw
from bctmc import smallscope as ss
from bctmc.runner import guarded
from bctmc.tally import Tally

PROPERTY = 'C11'
RULE = ('connected routines: every connected labelled 4-node graph with two vertex-disjoint edges (binary + distinct '
        'weights), named bridge-rich 5-6 node graphs (path, cycle, star+edge, bow-tie, bridged triangles, tree+chord), '
        'strongly connected 4-6 node digraphs (rings with 0-2 chords, triangles sharing a node), a few inputs with one connection of infinite weight; budgets 1-2 iterations '
        '(thorough 3); latticisers: all n! initial orders x k iterations, default D and a symmetric caller-supplied D (as float64, '
        'int64 and uint8 arrays), directed latticisers also with two asymmetric D; '
        'randomize_graph_partial_und: masks one empty cell / all-but-one empty cell / every other empty cell / two occupied cells plus empty cells / all occupied cells (distinct weights); ALL generator answers per '
        'configuration; rejection clause: every disconnected graph n<=5, every asymmetric 0/1 3-node matrix and five disconnected inputs of 140-220 nodes (two complete blocks with / without self-connections, a cut path); '
        'non-trivial configuration = one where at least one candidate swap was refused and one accepted '
        '(>= 2 distinct outputs) or an input that must be rejected')
ASSUMPTIONS = ['caller-supplied D for the undirected latticisers is symmetric (the code constrains one orientation only)',
               'masks are symmetric', 'state merging as in C01']

SYM_D4 = [[0, 1, 3, 2], [1, 0, 2, 3], [3, 2, 0, 1], [2, 3, 1, 0]]
ASYM_D4 = [[0, 1, 2, 3], [3, 0, 1, 2], [2, 3, 0, 1], [1, 2, 3, 0]]       # clockwise ring distance
ASYM2_D4 = [[0, 1, 5, 2], [4, 0, 2, 7], [1, 6, 0, 3], [8, 2, 1, 0]]      # no symmetry at all


def default_D(n):
    """Distance-to-diagonal matrix built by the latticisers when D is None (re-derived here)."""
    D = np.zeros((n, n))
    for a in range(n):
        for b in range(n):
            d = abs(a - b)
            D[a, b] = min(d, n - d)
    return D


def catalogue(thorough):
    cfgs = []
    iters_list = (1, 2, 3) if thorough else (1, 2)
    und4 = [c for c in rw.und4_all()]
    for tag, n, edges in und4 + rw.NAMED_UND:
        for weighted in (False, True):
            W = rw.und_from_edges(n, edges, weighted)
            if not ss.is_connected(W):
                continue
            for iters in iters_list:
                if iters >= 3 and (len(edges) > 5 or weighted):
                    continue
                if n >= 6 and iters >= 2 and not thorough:
                    continue
                cfgs.append({'fn': 'randmio_und_connected', 'tag': tag + ('_w' if weighted else ''), 'W': W,
                             'params': {'iters': iters}})
    extra_dir = [('dcycle4', 4, [(0, 1), (1, 2), (2, 3), (3, 0)]),
                 ('dcycle4_chord', 4, [(0, 1), (1, 2), (2, 3), (3, 0), (0, 2)]),
                 ('dcycle4_2chords', 4, [(0, 1), (1, 2), (2, 3), (3, 0), (0, 2), (1, 3)]),
                 ('dcycle5_2chords', 5, [(0, 1), (1, 2), (2, 3), (3, 4), (4, 0), (0, 2), (2, 4)]),
                 ('bidir_path4', 4, [(0, 1), (1, 0), (1, 2), (2, 1), (2, 3), (3, 2)])]
    for tag, n, arcs in rw.dir4_all(4, 6 if thorough else 5) + rw.NAMED_DIR + extra_dir:
        for weighted in (False, True):
            W = rw.dir_from_arcs(n, arcs, weighted)
            if not ss.strongly_connected(W):
                continue
            for iters in iters_list:
                if iters >= 3 and (len(arcs) > 6 or weighted):
                    continue
                cfgs.append({'fn': 'randmio_dir_connected', 'tag': tag + ('_w' if weighted else ''), 'W': W,
                             'params': {'iters': iters}})
    # a connection of infinite weight (a "must keep" marker): reachability is about presence, not magnitude
    for tag, n, edges in rw.NAMED_UND[:3] + [('path4', 4, [(0, 1), (1, 2), (2, 3)])]:
        W = rw.und_from_edges(n, edges, True)
        W[W == 1] = np.inf
        if ss.is_connected(W):
            cfgs.append({'fn': 'randmio_und_connected', 'tag': tag + '_w_inf', 'W': W, 'params': {'iters': 1}})
    for tag, n, arcs in extra_dir[:3]:
        W = rw.dir_from_arcs(n, arcs, True)
        W[W == 1] = np.inf
        if ss.strongly_connected(W):
            cfgs.append({'fn': 'randmio_dir_connected', 'tag': tag + '_w_inf', 'W': W, 'params': {'iters': 1}})
    # latticisers
    und_l = [('path4', 4, [(0, 1), (1, 2), (2, 3)]), ('star4', 4, [(0, 1), (0, 2), (0, 3)]),
             ('und4_0123', 4, [(0, 1), (2, 3)]), ('und4_0213', 4, [(0, 2), (1, 3)]),
             ('und4_010223', 4, [(0, 1), (0, 2), (2, 3)])]
    if thorough:
        # (cycle4 and path5 have 4 edges -> 4 iterations x n! node orders: > 1.5M states, beyond the budget)
        und_l += [('und4_0312_13', 4, [(0, 3), (1, 2), (1, 3)]), ('und5_0123_24', 5, [(0, 1), (2, 3), (2, 4)])]
    dir_l = [('dir4_0123', 4, [(0, 1), (2, 3)]), ('dir4_012330', 4, [(0, 1), (2, 3), (3, 0)]),
             ('dir4_021331', 4, [(0, 2), (1, 3), (3, 1)]), ('dcycle4', 4, [(0, 1), (1, 2), (2, 3), (3, 0)])]
    if thorough:
        dir_l += [('dcycle4_chord', 4, [(0, 1), (1, 2), (2, 3), (3, 0), (0, 2)])]
    for fn in rw.LATTICE:
        und = 'und' in fn
        for tag, n, es in (und_l if und else dir_l):
            W = rw.und_from_edges(n, es, True) if und else rw.dir_from_arcs(n, es, True)
            if fn.endswith('_connected'):
                if und and not ss.is_connected(W):
                    continue
                if not und and not ss.strongly_connected(W):
                    continue
            for Dname, D in (('default', None), ('sym', SYM_D4), ('sym_uint8', SYM_D4), ('sym_int', SYM_D4),
                             ('asym', ASYM_D4), ('asym2', ASYM2_D4)):
                if D is not None and n != 4:
                    continue
                if Dname.startswith('asym') and und:
                    continue
                if Dname in ('sym_uint8', 'sym_int') and not (thorough or tag in ('path4', 'und4_0123', 'dir4_012330', 'dcycle4')):
                    continue
                cfgs.append({'fn': fn, 'tag': tag + '_w_D' + Dname, 'W': W,
                             'params': {'itr': 1, 'D': D, 'D_dtype': {'sym_uint8': 'uint8', 'sym_int': 'int64'}.get(Dname)}})
    # masks
    for tag, n, edges in und4 + rw.NAMED_UND[:4]:
        W = rw.und_from_edges(n, edges, True)
        holes = [(a, b) for a in range(n) for b in range(a + 1, n) if W[a, b] == 0]
        masks = {}
        if holes:
            one = np.zeros((n, n))
            a, b = holes[0]
            one[a, b] = one[b, a] = 1
            masks['one_cell'] = one
            if len(holes) > 1:
                allbut = np.zeros((n, n))
                for (a, b) in holes[1:]:
                    allbut[a, b] = allbut[b, a] = 1
                masks['all_but_one'] = allbut
                half = np.zeros((n, n))
                for (a, b) in holes[::2]:
                    half[a, b] = half[b, a] = 1
                masks['every_other'] = half
        # masks that also cover cells holding a connection of the input: once that connection has been swapped away
        # nothing may be put back there (weights are distinct, so a returning connection is recognisable)
        on_edges = np.zeros((n, n))
        for (a, b) in edges[:2]:
            on_edges[a, b] = on_edges[b, a] = 1
        for (a, b) in holes[1::2]:
            on_edges[a, b] = on_edges[b, a] = 1
        masks['two_edges_and_holes'] = on_edges
        masks['all_edges'] = (W != 0).astype(float)
        for mname, B in masks.items():
            for ms in (1, 2):
                cfgs.append({'fn': 'randomize_graph_partial_und', 'tag': tag + '_w_mask_' + mname, 'W': W,
                             'params': {'B': B, 'maxswap': ms}})
    return cfgs


THOROUGH = [False]


def plan(ctx):
    THOROUGH[0] = ctx.thorough
    units = [('cfg', c) for c in catalogue(ctx.thorough)]
    for n in range(2, 6):
        tot = ss.und_count(n, (0, 1))
        for (a, b) in ss.ranges(tot, 8 if n >= 5 else 1):
            units.append(('reject_disconnected', n, a, b))
    units.append(('reject_asymmetric', 3, 0, 64))
    units.append(('reject_large', 0, 0, 4))
    return units


def large_disconnected():
    """disconnected inputs of more than 128 nodes: two equal complete blocks (every node linked to half the network)
    with and without self-connections, and a long path with one connection removed."""
    out = []
    for m in (70, 110):
        B = np.zeros((2 * m, 2 * m))
        B[:m, :m] = 1
        B[m:, m:] = 1
        np.fill_diagonal(B, 0)
        Bd = B + np.eye(2 * m)
        out += [('2xK%d' % m, B), ('2xK%d_selfloops' % m, Bd)]
    P = np.zeros((200, 200))
    for i in range(199):
        if i != 99:
            P[i, i + 1] = P[i + 1, i] = 1
    out.append(('path200_cut', P))
    return out


def unit_cost(unit):
    if unit[0] != 'cfg':
        return 0
    c = unit[1]
    p = c['params']
    return len(c['W']) * 3 + 4 * p.get('iters', p.get('maxswap', p.get('itr', 0))) + (6 if c['fn'].startswith('latmio') else 0)


def connected_for(fn, M):
    return ss.is_connected(M) if fn in rw.UNDIRECTED else ss.strongly_connected(M)


def judge(t, cfg, status, value, case_fn):
    fn = cfg['fn']
    W = np.array(cfg['W'], dtype=float)
    p = cfg['params']
    if status != 'ok':
        t.viol(fn, 'raises' if status == 'exc' else 'does_not_terminate', case_fn(), observed=value)
        return True
    bad = False
    if fn in rw.LATTICE:
        Rlatt, Rrp, ind_rp, eff = value
        ind = np.asarray(ind_rp)
        Rrp = np.asarray(Rrp, dtype=float)
        Rl = np.asarray(Rlatt, dtype=float)
        if sorted(ind.tolist()) != list(range(len(W))):
            t.viol(fn, 'ordering_is_permutation', case_fn(), observed=ind)
            return True
        D = default_D(len(W)) if p.get('D') is None else np.array(p['D'], dtype=float)
        before = float(np.sum(D * W[np.ix_(ind, ind)]))
        after = float(np.sum(D * Rrp))
        if after > before + 1e-9:
            t.viol(fn, 'lattice_cost_not_increased', case_fn(), observed=after, expected=before,
                   detail={'Rrp': Rrp, 'ind_rp': ind})
            bad = True
        if fn.endswith('_connected'):
            for nm, M in (('Rlatt', Rl), ('Rrp', Rrp)):
                if not connected_for(fn, M):
                    t.viol(fn, 'connectedness_preserved', case_fn(), observed=M, tags={'output': nm})
                    bad = True
    elif fn == 'randomize_graph_partial_und':
        A = np.asarray(value, dtype=float)
        B = np.array(p['B'], dtype=float)
        created = (A != 0) & (A != W)          # distinct weights: a cell whose weight changed received a connection
        if np.any(created & (B != 0)):
            t.viol(fn, 'mask_respected', case_fn(), observed=A, detail={'mask': B})
            bad = True
    else:
        R, eff = value
        R = np.asarray(R, dtype=float)
        if not connected_for(fn, R):
            t.viol(fn, 'connectedness_preserved', case_fn(), observed=R)
            bad = True
    return bad


def invariant(t, cfg, frames, case_fn):
    fn = cfg['fn']
    f = rw.find_frame(frames, fn)
    if f is None:
        t.c['state_invariant_skipped'] += 1
        return
    loc = f.f_locals
    if fn == 'randomize_graph_partial_und':
        if 'A' not in loc:
            t.c['state_invariant_skipped'] += 1
            return
        A = np.asarray(loc['A'], dtype=float)
        W = np.array(cfg['W'], dtype=float)
        B = np.array(cfg['params']['B'], dtype=float)
        t.c['state_invariants_checked'] += 1
        if np.any((A != 0) & (A != W) & (B != 0)):
            t.viol(fn, 'state:mask_respected', case_fn(), observed=A)
        return
    if not fn.endswith('_connected'):
        return
    if 'R' not in loc or not isinstance(loc['R'], np.ndarray) or 'i' not in loc:
        t.c['state_invariant_skipped'] += 1
        return
    t.c['state_invariants_checked'] += 1
    if not connected_for(fn, np.asarray(loc['R'], dtype=float)):
        t.viol(fn, 'state:working_matrix_connected', case_fn(), observed=loc['R'])


def work(unit):
    t = Tally(PROPERTY)
    if unit[0] == 'cfg':
        return rw.explore_config(PROPERTY, unit[1], judge, invariant,
                                 max_executions=3000000 if THOROUGH[0] else 300000)
    kind, n, a, b = unit
    if kind == 'reject_large':
        for idx, (label, X) in enumerate(large_disconnected()):
            for fn in ('randmio_und_connected', 'latmio_und_connected'):
                case = {'family': 'disconnected_large', 'index': idx, 'graph': label, 'A': 'large_disconnected[%d]' % idx}
                st, out = guarded(getattr(bct, fn), X.copy(), 0, seed=0, _timeout=300)
                t.c['evaluations'] += 1
                t.c['nontrivial'] += 1
                if not (st == 'exc' and isinstance(out, bct.BCTParamError)):
                    t.viol(fn, 'rejects_disconnected', case, observed=str(out)[:80], expected='BCTParamError')
        return t
    if kind == 'reject_disconnected':
        for idx in range(a, b):
            A = ss.und_graph(n, (0, 1), idx)
            if ss.is_connected(A):
                continue
            for fn, args in (('randmio_und_connected', (1,)), ('latmio_und_connected', (1,))):
                for variant, X in (('binary', A), ('weighted', A * (1 + np.arange(n)[:, None] + np.arange(n)[None, :]))):
                    case = {'family': 'disconnected', 'n': n, 'index': idx, 'variant': variant, 'A': X}
                    st, out = guarded(getattr(bct, fn), X.copy(), *args, seed=0)
                    t.c['evaluations'] += 1
                    t.c['nontrivial'] += 1
                    if not (st == 'exc' and isinstance(out, bct.BCTParamError)):
                        t.viol(fn, 'rejects_disconnected', case, observed=out, expected='BCTParamError')
    else:
        for idx in range(a, b):
            A = ss.dir_graph(3, (0, 1), idx)
            if np.array_equal(A, A.T):
                continue
            for fn in ('randmio_und_connected', 'latmio_und_connected'):
                case = {'family': 'asymmetric', 'n': 3, 'index': idx, 'A': A}
                st, out = guarded(getattr(bct, fn), A.copy(), 1, seed=0)
                t.c['evaluations'] += 1
                t.c['nontrivial'] += 1
                if not (st == 'exc' and isinstance(out, bct.BCTParamError)):
                    t.viol(fn, 'rejects_asymmetric', case, observed=out, expected='BCTParamError')
    return t


def coverage(ctx, total):
    c = total.c
    return {'states': int(c['states']), 'transitions': int(c['transitions']),
            'traces_validated_against_impl': int(c['executions'])}


def replay(rec):
    case = rec['case']
    if 'config' in case:
        return rw.replay_case(PROPERTY, rec, judge, invariant)
    t = Tally(PROPERTY)
    if case.get('family') == 'disconnected_large':
        return work(('reject_large', 0, 0, 4))
    A = np.array(case['A'], dtype=float)
    clause = rec['clause']
    st, out = guarded(getattr(bct, rec['function']), A.copy(), 1, seed=0)
    if not (st == 'exc' and isinstance(out, bct.BCTParamError)):
        t.viol(rec['function'], clause, case, observed=out, expected='BCTParamError')
    return t
