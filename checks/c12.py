"""C12 - every path the library returns is a real path with the reported length.

Engine B: distance_wei_floyd + retrieve_shortest_path on every small (di)graph x
every (s,t) x every transform; navigation_wu on every (L, D, max_hops) triple of
a small scope.  Oracle: walk the returned node sequence on the input.
"""
import numpy as np

import bct
from bctmc import smallscope as ss
from bctmc import oracles as orc
from bctmc import named
from bctmc.runner import guarded
from bctmc.tally import Tally
from bctmc import dtypes

PROPERTY = 'C12'
RULE = ('thorough only: a 1030-node ring with chords (paths from / to the last six nodes walked, distances against scipy Dijkstra); call sequences: for every ordered pair (A,B) of binary 3-node digraphs, binary 4-node graphs and 3-node graphs over {0,1,2}, what the routine returned for A is unchanged after it was called on B; element types: every routine also on int64 / int32 / uint8 / bool copies of all 3-node digraphs and 4-node graphs over {0,1,2} (same values as for float64; integers must not raise, a boolean matrix may be rejected with TypeError); Floyd: the structured 7-10 node family of bctmc/named.py (binary, lengths {1,2},{1,2,3}, near-tie) and all 3-node digraphs / 4-node graphs over lengths {1,2,3}, all binary 4-node digraphs, dyadic weights '
        '{1,1/2,1/4} with inv and log, the exact near-tie alphabets {1,2,2+2^-20} and {1,2^20,2^20+1}, and the float near-tie alphabets {0.1,0.2,0.3} / {0.2,0.4,0.6} (0.1+0.2 != 0.3 in '
        'binary floating point), lengths {1,2} on all 59 049 5-node graphs, every ordered (s,t) (thorough: lengths {1,2} on all 4-node digraphs); '
        'navigation: binary L on 4 nodes x all symmetric D over {1,2,3}, L over {0,1,2} x D over {1,2}, max_hops in '
        '{None,1,2,3}, and binary / {1,2}-length L on 3 nodes x ALL (also asymmetric) D over {1,2,3} / {1,2} (thorough: L over {0,1,2} x all D over {1,2,3}; 5-node binary L x D over {1,2}); non-trivial = '
        'Floyd: graph with an unreachable pair and a tie between different hop counts, navigation: instance with both a '
        'failed and a multi-hop successful pair')
ASSUMPTIONS = ['float64 inputs; navigation_wu is exercised on undirected L only (its documented "_wu" domain; on '
               'directed cycles the greedy walk need not terminate)',
               'oracle walks the returned node sequence on the input matrix; distances from bctmc/oracles.py']

FLOYD = {
    'len_dir3': (True, 3, (0, 1, 2, 3), None, 'q'),
    'len_und4': (False, 4, (0, 1, 2, 3), None, 'q'),
    'bin_dir4': (True, 4, (0, 1), None, 'q'),
    'neartie_dir3': (True, 3, (0, 1, 2, 2 + 2.0 ** -20), None, 'q'),
    'neartie_und4': (False, 4, (0, 1, 2, 2 + 2.0 ** -20), None, 'q'),
    'mixedscale_und4': (False, 4, (0, 1, 2.0 ** 20, 2.0 ** 20 + 1), None, 'q'),
    'wt_dir3': (True, 3, (0, 1, 0.5, 0.25), 'both', 'q'),
    'wt_und4': (False, 4, (0, 1, 0.5, 0.25), 'both', 'q'),
    'near_dir3': (True, 3, (0, 0.1, 0.2, 0.3), None, 'q'),
    'near_und4': (False, 4, (0, 0.1, 0.2, 0.3), None, 'q'),
    'near2_und4': (False, 4, (0, 0.2, 0.4, 0.6), None, 'q'),
    'near4_und5': (False, 5, (0, 0.2, 0.4), None, 'q'),
    'len_dir4': (True, 4, (0, 1, 2), None, 't'),
    'len_und5': (False, 5, (0, 1, 2), None, 'q'),
    'near_und5': (False, 5, (0, 0.1, 0.2), None, 't'),
    'near3_und5': (False, 5, (0, 0.1, 0.3), None, 't'),
}
# navigation: (n, L alphabet, D alphabet, tier)
NAV = {
    'nav_bin4_D123': (4, (0, 1), (1, 2, 3), 'q'),
    'nav_len4_D12': (4, (0, 1, 2), (1, 2), 'q'),
    'nav_len4_D123': (4, (0, 1, 2), (1, 2, 3), 't'),
    'nav_bin5_D12': (5, (0, 1), (1, 2), 't'),
    # asymmetric inter-node distances (one-way travel times): the summed distance follows the direction of the walk
    'nav_bin3_Dasym123': (3, (0, 1), (1, 2, 3), 'q', True),
    'nav_len3_Dasym12': (3, (0, 1, 2), (1, 2), 'q', True),
    'nav_bin4_Dasym12': (4, (0, 1), (1, 2), 't', True),
}
MAX_HOPS = (None, 1, 2, 3)


def _all_paths(A):
    SPL, hops, Pmat = bct.distance_wei_floyd(A)
    n = len(A)
    return (SPL, hops) + tuple(np.asarray(bct.retrieve_shortest_path(s, t_, hops, Pmat), dtype=float).ravel()
                               for s in range(n) for t_ in range(n) if s != t_)


def _nav(A):
    n = len(A)
    D = np.abs(np.subtract.outer(np.arange(n), np.arange(n))) + 1
    sr, PLb, PLw, PLd, paths = bct.navigation_wu(A, D.astype(A.dtype) if A.dtype.kind in 'iu' else D.astype(float))
    return (sr, PLb, PLw, PLd) + tuple(np.asarray(paths[k], dtype=float) for k in sorted(paths))


ETYPE_FUNCS = [('distance_wei_floyd+retrieve_shortest_path', _all_paths, None),
               ('navigation_wu', _nav, lambda A, d: not d)]


def plan(ctx):
    units = []
    for name, (directed, n, alpha, tr, tier) in FLOYD.items():
        if tier == 't' and not ctx.thorough:
            continue
        tot = ss.dir_count(n, alpha) if directed else ss.und_count(n, alpha)
        for (a, b) in ss.ranges(tot, max(1, min(800, tot // 100))):
            units.append(('floyd', name, a, b))
    for tag in ('bin_und', 'bin_dir', 'len_und', 'len_dir', 'neartie_und', 'neartie_dir'):
        for (a, b) in ss.ranges(len(named.family(tag)), 8):
            units.append(('named', tag, a, b))
    for name, spec in NAV.items():
        n, la, da, tier = spec[:4]
        if tier == 't' and not ctx.thorough:
            continue
        tot = ss.und_count(n, la)
        for (a, b) in ss.ranges(tot, tot):
            units.append(('nav', name, a, b))
    if ctx.thorough:
        units.append(('big_floyd', 0, 0, 0))
    for name, (directed, n, alpha) in SEQ.items():
        tot = ss.dir_count(n, alpha) if directed else ss.und_count(n, alpha)
        for (a, b) in ss.ranges(tot, 8):
            units.append(('seq', name, a, b))
    units += dtypes.units([(True, 3, (0, 1, 2)), (False, 4, (0, 1, 2))])
    return units


def lengths_for(X, transform):
    if transform is None:
        return orc.lengths_matrix(X)
    with np.errstate(divide='ignore'):
        M = -np.log(X) if transform == 'log' else 1.0 / X
    M = np.where(X != 0, M, np.inf)
    np.fill_diagonal(M, np.inf)
    return M


def check_floyd(t, X, transform, case):
    n = len(X)
    exact = bool(np.all(np.mod(X * 2.0 ** 30, 1.0) == 0) and np.all(np.abs(X) < 2.0 ** 21))   # dyadic: sums are exact
    _viol = t.viol

    def viol(fn, clause, c, **kw):
        kw.setdefault('tags', {})
        kw['tags'] = dict(kw['tags'], lengths_exact_in_binary=exact)
        return _viol(fn, clause, c, **kw)
    M = lengths_for(X, transform)
    D, E = orc.shortest(M)
    st, out = guarded(bct.distance_wei_floyd, X.copy(), transform=transform)
    t.c['evaluations'] += 1
    if st != 'ok':
        viol('distance_wei_floyd', 'raises', case, observed=out)
        return False
    SPL, hops, Pmat = out
    SPL = np.asarray(SPL, dtype=float)
    for s in range(n):
        for tt in range(n):
            if s == tt:
                continue
            st, path = guarded(bct.retrieve_shortest_path, s, tt, hops, Pmat)
            c = dict(case, s=s, t=tt)
            if st != 'ok':
                viol('retrieve_shortest_path', 'raises', c, observed=path)
                continue
            p = [int(x) for x in np.asarray(path).ravel()]
            reachable = bool(np.isfinite(D[s, tt]))
            if not reachable:
                if p:
                    viol('retrieve_shortest_path', 'empty_iff_unreachable', c, observed=p, expected=[])
                if np.isfinite(SPL[s, tt]):
                    viol('distance_wei_floyd', 'infinite_iff_unreachable', c, observed=SPL[s, tt])
                continue
            if not p:
                viol('retrieve_shortest_path', 'empty_iff_unreachable', c, observed=p, expected='a path')
                continue
            if p[0] != s or p[-1] != tt:
                viol('retrieve_shortest_path', 'endpoints', c, observed=p)
                continue
            if any(X[a, b] == 0 for a, b in zip(p[:-1], p[1:])):
                viol('retrieve_shortest_path', 'steps_are_connections', c, observed=p)
                continue
            if len(p) - 1 != hops[s, tt]:
                viol('retrieve_shortest_path', 'hop_count', c, observed=p, expected=hops[s, tt])
            total = sum(M[a, b] for a, b in zip(p[:-1], p[1:]))
            if not orc.close(total, SPL[s, tt]):
                viol('retrieve_shortest_path', 'reported_length', c, observed=total, expected=SPL[s, tt])
            if not orc.close(SPL[s, tt], D[s, tt]):
                viol('distance_wei_floyd', 'is_minimum', c, observed=SPL[s, tt], expected=D[s, tt])
    allowed = orc.hop_sets(D, E)
    fin = np.isfinite(D)
    return bool((not fin.all()) and any(len(allowed[u][v]) > 1 for u in range(n) for v in range(n)))


def sym_from_index(n, alpha, idx):
    return ss.und_graph(n, alpha, idx)


def check_nav(t, L, Dm, mh, case):
    n = len(L)
    st, out = guarded(bct.navigation_wu, L.copy(), Dm.copy(), max_hops=mh, _timeout=10)
    t.c['evaluations'] += 1
    if st != 'ok':
        t.viol('navigation_wu', 'raises' if st == 'exc' else 'does_not_terminate', case, observed=out)
        return False
    sr, PLb, PLw, PLd, paths = out
    succ = 0
    multi = False
    for i in range(n):
        for j in range(n):
            if i == j:
                continue
            c = dict(case, i=i, j=j)
            p = [int(x) for x in paths.get((i, j), [])]
            if not p or p[0] != i:
                t.viol('navigation_wu', 'path_starts_at_source', c, observed=p)
                continue
            if any(L[a, b] == 0 for a, b in zip(p[:-1], p[1:])):
                t.viol('navigation_wu', 'steps_are_connections', c, observed=p)
                continue
            trip = (PLb[i, j], PLw[i, j], PLd[i, j])
            if all(np.isinf(x) for x in trip):
                continue
            if any(np.isinf(x) for x in trip):
                t.viol('navigation_wu', 'failure_infinite_in_all_three', c, observed=trip)
                continue
            succ += 1
            if p[-1] != j:
                t.viol('navigation_wu', 'success_ends_at_target', c, observed=p)
                continue
            hop = len(p) - 1
            wl = sum(L[a, b] for a, b in zip(p[:-1], p[1:]))
            dl = sum(Dm[a, b] for a, b in zip(p[:-1], p[1:]))
            if hop != PLb[i, j] or not orc.close(wl, PLw[i, j]) or not orc.close(dl, PLd[i, j]):
                t.viol('navigation_wu', 'reported_lengths', c, observed=trip, expected=(hop, wl, dl))
            if hop >= 2:
                multi = True
    if n > 1 and not orc.close(sr, succ / float(n * n - n)):
        t.viol('navigation_wu', 'success_ratio', case, observed=sr, expected=succ / float(n * n - n))
    for M_, nm in ((PLb, 'PL_bin'), (PLw, 'PL_wei'), (PLd, 'PL_dis')):
        if not np.all(np.isinf(np.diag(M_))):
            t.viol('navigation_wu', 'diagonal_infinite', case, observed=np.diag(M_), tags={'matrix': nm})
    return multi and succ < n * n - n


def work_sequence(unit):
    """what a call returned stays what it was after the next call (no buffer shared between calls): every ordered pair
    (A, B) of a family; the outputs for A are snapshotted, the routine is called on B, the outputs for A are compared."""
    _, name, a, b = unit
    t = Tally(PROPERTY)
    directed, n, alpha = SEQ[name]
    tot = ss.dir_count(n, alpha) if directed else ss.und_count(n, alpha)
    gen = ss.dir_graph if directed else ss.und_graph
    for i in range(a, b):
        A = gen(n, alpha, i)
        for j in range(tot):
            B = gen(n, alpha, j)
            for fname, f in (('distance_wei_floyd', lambda X: bct.distance_wei_floyd(X)),
                             ('distance_wei_floyd[inv]', lambda X: bct.distance_wei_floyd(X, transform='inv'))):
                st, outA = guarded(f, A.copy())
                if st != 'ok':
                    continue
                snap = [np.array(x, copy=True) for x in outA]
                guarded(f, B.copy())
                t.c['evaluations'] += 1
                t.c['nontrivial'] += 1
                for k, (x, y) in enumerate(zip(outA, snap)):
                    if not np.array_equal(np.asarray(x), y, equal_nan=True):
                        t.viol(fname.split('[')[0], 'earlier_result_unchanged_by_later_call',
                               {'family': name, 'index': i, 'X': A, 'then': B, 'call': fname}, observed=x, expected=y,
                               tags={'output': k})
                        break
            if not directed:
                D = np.abs(np.subtract.outer(np.arange(n), np.arange(n))) + 1.0
                st, outA = guarded(bct.navigation_wu, A.copy(), D.copy())
                if st == 'ok':
                    snap = [np.array(x, copy=True) for x in outA[:4]] + [dict((k, list(v)) for k, v in outA[4].items())]
                    guarded(bct.navigation_wu, B.copy(), D.copy())
                    t.c['evaluations'] += 1
                    same = all(np.array_equal(np.asarray(x), y, equal_nan=True) for x, y in zip(outA[:4], snap[:4])) and \
                        dict((k, list(v)) for k, v in outA[4].items()) == snap[4]
                    if not same:
                        t.viol('navigation_wu', 'earlier_result_unchanged_by_later_call',
                               {'family': name, 'index': i, 'X': A, 'then': B, 'call': 'navigation_wu'})
    return t


SEQ = {'seq_dir3': (True, 3, (0, 1)), 'seq_und4': (False, 4, (0, 1)), 'seq_len3': (False, 3, (0, 1, 2))}


def work_big_floyd():
    """thorough only: 1030 nodes (beyond 1024: a blocked implementation switches blocks there); ring with chords and
    lengths {1,2,3}; every path from / to the last six nodes is walked, distances against scipy's Dijkstra."""
    from scipy.sparse.csgraph import dijkstra
    t = Tally(PROPERTY)
    n = 1030
    X = np.zeros((n, n))
    for i in range(n):
        X[i, (i + 1) % n] = X[(i + 1) % n, i] = 1.0 + (i % 3)
        if i % 17 == 0:
            j = (i * 7 + 300) % n
            if j != i:
                X[i, j] = X[j, i] = 2.0
    X[5, :] = 0
    X[:, 5] = 0          # one unreachable node
    st, out = guarded(bct.distance_wei_floyd, X.copy(), _timeout=3000)
    t.c['evaluations'] += 1
    case = {'family': 'big_floyd', 'n': n}
    if st != 'ok':
        t.viol('distance_wei_floyd', 'raises', case, observed=out)
        return t
    SPL, hops, Pmat = out
    D = dijkstra(X, directed=True)
    if not np.allclose(np.where(np.isinf(SPL), -1, SPL), np.where(np.isinf(D), -1, D)):
        t.viol('distance_wei_floyd', 'distance', case, observed=float(np.nanmax(np.abs(np.where(np.isinf(SPL), 0, SPL) - np.where(np.isinf(D), 0, D)))))
    for s_ in list(range(n - 6, n)) + [0, 5, 511, 1023]:
        for t_ in range(0, n, 7):
            if s_ == t_:
                continue
            for (a, b) in ((s_, t_), (t_, s_)):
                st, path = guarded(bct.retrieve_shortest_path, a, b, hops, Pmat)
                t.c['evaluations'] += 1
                c = dict(case, s=a, t=b)
                if st != 'ok':
                    t.viol('retrieve_shortest_path', 'raises', c, observed=path)
                    continue
                p = [int(x) for x in np.asarray(path).ravel()]
                if np.isinf(D[a, b]):
                    if p:
                        t.viol('retrieve_shortest_path', 'empty_iff_unreachable', c, observed=p[:10])
                    continue
                if not p or p[0] != a or p[-1] != b:
                    t.viol('retrieve_shortest_path', 'endpoints', c, observed=p[:10])
                    continue
                if any(X[u, v] == 0 for u, v in zip(p[:-1], p[1:])):
                    t.viol('retrieve_shortest_path', 'steps_are_connections', c, observed=p[:10])
                    continue
                ln = sum(X[u, v] for u, v in zip(p[:-1], p[1:]))
                if abs(ln - D[a, b]) > 1e-9 or len(p) - 1 != hops[a, b]:
                    t.viol('retrieve_shortest_path', 'reported_length_and_hops', c, observed=[ln, len(p) - 1], expected=[D[a, b], hops[a, b]])
    t.c['nontrivial'] += 1
    return t


def work(unit):
    if unit[0] == 'big_floyd':
        return work_big_floyd()
    if unit[0] == 'seq':
        return work_sequence(unit)
    if unit[0] == 'etype':
        return dtypes.work_unit(PROPERTY, ETYPE_FUNCS, unit)
    kind, name, a, b = unit
    t = Tally(PROPERTY)
    if kind == 'named':
        fam = named.family(name)
        for idx in range(a, b):
            label, X = fam[idx]
            case = {'family': 'named:' + name, 'index': idx, 'graph': label, 'X': X, 'transform': None}
            if check_floyd(t, X, None, case):
                t.c['nontrivial'] += 1
        return t
    if kind == 'floyd':
        directed, n, alpha, tr, _ = FLOYD[name]
        transforms = ('inv', 'log') if tr == 'both' else (None,)
        for idx in range(a, b):
            X = ss.dir_graph(n, alpha, idx) if directed else ss.und_graph(n, alpha, idx)
            for transform in transforms:
                case = {'family': name, 'index': idx, 'X': X, 'transform': transform}
                if check_floyd(t, X, transform, case):
                    t.c['nontrivial'] += 1
                    if idx % 307 == 9:
                        t.sample(case, order=-n * 10 ** 7 + idx)
    else:
        n, la, da = NAV[name][:3]
        asym = len(NAV[name]) > 4
        for idx in range(a, b):
            L = ss.und_graph(n, la, idx)
            for didx in range(ss.dir_count(n, da) if asym else ss.und_count(n, da)):
                Dm = ss.dir_graph(n, da, didx) if asym else ss.und_graph(n, da, didx)
                for mh in MAX_HOPS:
                    case = {'family': name, 'index': idx, 'L': L, 'D_index': didx, 'D': Dm, 'max_hops': mh}
                    if check_nav(t, L, Dm, mh, case):
                        t.c['nontrivial'] += 1
                        if (idx * 131 + didx) % 4001 == 17:
                            t.sample(case, order=-n * 10 ** 7 + idx)
    return t


def replay(rec):
    if rec['case'].get('family') == 'element_types':
        return dtypes.replay(PROPERTY, ETYPE_FUNCS, rec['case'])
    t = Tally(PROPERTY)
    c = rec['case']
    if c.get('family') == 'big_floyd':
        return work_big_floyd()
    if 'then' in c:
        name = c['family']
        directed, n, alpha = SEQ[name]
        return work_sequence(('seq', name, c['index'], c['index'] + 1))
    if 'L' in c:
        base = {k: c[k] for k in ('family', 'index', 'L', 'D_index', 'D', 'max_hops')}
        check_nav(t, np.array(c['L'], dtype=float), np.array(c['D'], dtype=float), c['max_hops'], base)
    else:
        base = {k: c[k] for k in ('family', 'index', 'X', 'transform')}
        check_floyd(t, np.array(c['X'], dtype=float), c['transform'], base)
    return t
