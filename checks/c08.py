"""C08 - betweenness counts exactly the shortest paths through each node and edge.

Engine B: all small (di)graphs, binary and with lengths {1,2}/{1,2,3} (exact ties
everywhere); oracle enumerates every minimum-length simple path.
"""
import numpy as np

import bct
from bctmc import smallscope as ss
from bctmc import oracles as orc
from bctmc import named
from bctmc.runner import guarded
from bctmc.tally import Tally
from bctmc import dtypes

PROPERTY = 'C08'
RULE = ('all 4-node graphs over float32 lengths {0.1, 0.2, 0.3} (sums not representable in single precision) against the same values in float64; five structured graphs on 144-200 nodes against an exact-integer Brandes oracle (up to 2^64 shortest paths per pair); on the same families: self-connections on the diagonal change nothing; element types: every routine also on int64 / int32 / uint8 / bool copies of all 3-node digraphs over {0,1} and {0,1,2}, 4-node graphs over {0,1,2}, 5-node binary graphs (same values as for float64; integers must not raise, a boolean matrix may be rejected with TypeError); every free tree on 8-9 nodes under the scan orders of bctmc/trees.py (3354 labelled trees, 0/1); the structured 7-10 node family of bctmc/named.py (binary, lengths {1,2},{1,2,3}, near-tie) and all binary digraphs n<=4 and graphs n<=5; lengths {1,2} on 4-node graphs and 3-node digraphs, {1,2,3} and the near-tie alphabet {1,2,2+2^-20} on 3-node '
        'digraphs and binary graphs n=6 (thorough: lengths {1,2} on all 4-node digraphs and 5-node graphs); non-trivial = '
        'graph with a source-target pair joined by >= 2 distinct shortest paths, or with an unreachable ordered pair while '
        'some pair is >= 2 hops apart')
ASSUMPTIONS = ['float64 inputs, integer lengths (exact sums)',
               'reference: enumeration of all minimum-length simple paths (bctmc/oracles.py)']

BIN = (0, 1)
FAMILIES = {
    'bin_dir3': (True, 3, BIN, 'q'), 'bin_dir4': (True, 4, BIN, 'q'),
    'bin_und4': (False, 4, BIN, 'q'), 'bin_und5': (False, 5, BIN, 'q'),
    'len_und4': (False, 4, (0, 1, 2), 'q'), 'len_dir3': (True, 3, (0, 1, 2, 3), 'q'),
    'len_und4b': (False, 4, (0, 1, 2, 3), 'q'),
    'neartie_und4': (False, 4, (0, 1, 2, 2 + 2.0 ** -20), 'q'), 'neartie_dir3': (True, 3, (0, 1, 2, 2 + 2.0 ** -20), 'q'),
    'len_dir4': (True, 4, (0, 1, 2), 't'), 'len_und5': (False, 5, (0, 1, 2), 't'),
    'bin_und6': (False, 6, BIN, 'q'),
}


NAMED = ('named:bintree_und', 'named:bin_und', 'named:bin_dir', 'named:len_und', 'named:len_dir', 'named:neartie_und')


ETYPE_FUNCS = [
    ('betweenness_bin', bct.betweenness_bin, None), ('betweenness_wei', bct.betweenness_wei, None),
    ('edge_betweenness_bin', bct.edge_betweenness_bin, None), ('edge_betweenness_wei', bct.edge_betweenness_wei, None),
]


def plan(ctx):
    units = []
    for nm in NAMED:
        tot = len(named.family(nm.split(':')[1]))
        for (a, b) in ss.ranges(tot, 16):
            units.append((nm, a, b))
    for name, (directed, n, alpha, tier) in FAMILIES.items():
        if tier == 't' and not ctx.thorough:
            continue
        tot = ss.dir_count(n, alpha) if directed else ss.und_count(n, alpha)
        for (a, b) in ss.ranges(tot, max(1, min(800, tot // 40))):
            units.append((name, a, b))
    units += [('large', k, 0) for k in range(len(named.family('large_und')))]
    units += [('f32', a, b) for (a, b) in ss.ranges(ss.und_count(4, F32_ALPHA), 16)]
    units += dtypes.units(dtypes.STD_FAMILIES)
    return units


def unreach_tag(D):
    n = len(D)
    return int(max(np.sum(~np.isfinite(D[u])) for u in range(n)))


def check_case(t, X, case, binary):
    n = len(X)
    M = orc.lengths_matrix(X)
    BC, EBC, D = orc.betweenness_ref(M)
    tags = {'max_unreachable_from_a_source': unreach_tag(D)}
    fin = np.isfinite(D) & orc.offdiag(n)
    nsp_multi = False
    # non-triviality: some pair with >1 shortest path  <=> some BC fraction or EBC non-integer, or direct count
    for s in range(n):
        for u in range(n):
            if s != u and np.isfinite(D[s, u]) and len(orc.all_shortest_paths(M, D, s, u)) > 1:
                nsp_multi = True
                break
        if nsp_multi:
            break
    funcs = [('betweenness_wei', bct.betweenness_wei, 'node'),
             ('edge_betweenness_wei', bct.edge_betweenness_wei, 'edge')]
    if binary:
        funcs += [('betweenness_bin', bct.betweenness_bin, 'node'),
                  ('edge_betweenness_bin', bct.edge_betweenness_bin, 'edge')]
    for fname, f, kind in funcs:
        st, out = guarded(f, X.copy())
        t.c['evaluations'] += 1
        if st != 'ok':
            t.viol(fname, 'raises', case, observed=out, tags=tags)
            continue
        if kind == 'node':
            bc, ebc = np.asarray(out, dtype=float), None
        else:
            ebc, bc = np.asarray(out[0], dtype=float), np.asarray(out[1], dtype=float)
        if bc.shape != (n,) or not orc.close(bc, BC):
            t.viol(fname, 'node_betweenness', case, observed=bc, expected=BC, tags=tags)
        if ebc is not None and (ebc.shape != (n, n) or not orc.close(ebc, EBC)):
            t.viol(fname, 'edge_betweenness', case, observed=ebc, expected=EBC, tags=tags)
        if binary:
            if not orc.close(np.sum(bc), np.sum(D[fin] - 1)):
                t.viol(fname, 'node_sum_identity', case, observed=np.sum(bc), expected=np.sum(D[fin] - 1), tags=tags)
            if ebc is not None and not orc.close(np.sum(ebc), np.sum(D[fin])):
                t.viol(fname, 'edge_sum_identity', case, observed=np.sum(ebc), expected=np.sum(D[fin]), tags=tags)
    return nsp_multi or (not fin.all() and bool((D[fin] >= 2).any()) if fin.any() else False)


def exact_brandes(A):
    """node and connection betweenness of a 0/1 matrix with exact integer path counts (they exceed 2^63 on the necklace)."""
    n = len(A)
    nb = [np.flatnonzero(A[v]).tolist() for v in range(n)]
    bc = np.zeros(n)
    ebc = np.zeros((n, n))
    dist_sum = 0
    for s in range(n):
        sigma = [0] * n
        dist = [-1] * n
        pred = [[] for _ in range(n)]
        sigma[s], dist[s] = 1, 0
        order, q = [], [s]
        while q:
            nq = []
            for v in q:
                order.append(v)
                for w in nb[v]:
                    if dist[w] < 0:
                        dist[w] = dist[v] + 1
                        nq.append(w)
                    if dist[w] == dist[v] + 1:
                        sigma[w] += sigma[v]
                        pred[w].append(v)
            q = nq
        delta = [0.0] * n
        for w in reversed(order):
            for v in pred[w]:
                c = (sigma[v] / sigma[w]) * (1.0 + delta[w])
                ebc[v, w] += c
                delta[v] += c
            if w != s:
                bc[w] += delta[w]
        dist_sum += sum(d for d in dist if d > 0)
    return bc, ebc, dist_sum


def work_large(idx):
    t = Tally(PROPERTY)
    label, X = named.family('large_und')[idx]
    n = len(X)
    BC, EBC, dsum = exact_brandes(X)
    case = {'family': 'named:large_und', 'index': idx, 'graph': label, 'X': 'named:large_und[%d]' % idx}
    pairs = int(np.count_nonzero(np.isfinite(orc.bfs_dist(X)) & orc.offdiag(n)))
    for fname, f, kind in (('betweenness_bin', bct.betweenness_bin, 'node'), ('betweenness_wei', bct.betweenness_wei, 'node'),
                           ('edge_betweenness_bin', bct.edge_betweenness_bin, 'edge'),
                           ('edge_betweenness_wei', bct.edge_betweenness_wei, 'edge')):
        st, out = guarded(f, X.copy(), _timeout=600)
        t.c['evaluations'] += 1
        if st != 'ok':
            t.viol(fname, 'raises', case, observed=out)
            continue
        if kind == 'node':
            bc, ebc = np.asarray(out, dtype=float), None
        else:
            ebc, bc = np.asarray(out[0], dtype=float), np.asarray(out[1], dtype=float)
        rel = lambda a, b: np.all(np.abs(a - b) <= 1e-9 * np.maximum(1.0, np.abs(b)))
        if bc.shape != (n,) or not rel(bc, BC):
            t.viol(fname, 'node_betweenness', case, observed=bc[:12], expected=BC[:12])
        if ebc is not None and (ebc.shape != (n, n) or not rel(ebc, EBC)):
            t.viol(fname, 'edge_betweenness', case, observed=float(np.max(np.abs(ebc - EBC))), expected=0)
        if not rel(np.sum(bc), float(dsum - pairs)):
            t.viol(fname, 'node_sum_identity', case, observed=float(np.sum(bc)), expected=dsum - pairs)
        if ebc is not None and not rel(np.sum(ebc), float(dsum)):
            t.viol(fname, 'edge_sum_identity', case, observed=float(np.sum(ebc)), expected=dsum)
    t.c['nontrivial'] += 1
    return t


F32_ALPHA = (0, 0.1, 0.2, 0.3)


def work_f32(a, b):
    """single-precision length matrices whose sums are not representable in single precision (0.1f + 0.2f < 0.3f exactly):
    the routine must treat them as the float64 matrix holding the same values."""
    t = Tally(PROPERTY)
    for idx in range(a, b):
        X32 = ss.und_graph(4, F32_ALPHA, idx).astype(np.float32)
        X64 = X32.astype(np.float64)
        for fname, f in (('betweenness_wei', bct.betweenness_wei), ('edge_betweenness_wei', bct.edge_betweenness_wei)):
            s0, base = guarded(f, X64.copy())
            s1, out = guarded(f, X32.copy())
            t.c['evaluations'] += 1
            case = {'family': 'float32_near_ties', 'index': idx, 'X': X64, 'call': fname}
            if s0 != s1:
                t.viol(fname, 'element_type:raises', case, observed=out)
            elif s0 == 'ok' and not dtypes.same(out, base, 1e-6):
                t.viol(fname, 'element_type:same_values', case, observed=out, expected=base, tags={'element_type': 'float32'})
        t.c['nontrivial'] += 1
    return t


def work(unit):
    if unit[0] == 'f32':
        return work_f32(unit[1], unit[2])
    if unit[0] == 'large':
        return work_large(unit[1])
    if unit[0] == 'etype':
        return dtypes.work_unit(PROPERTY, ETYPE_FUNCS, unit, selfloop_invariant=('betweenness_bin', 'betweenness_wei', 'edge_betweenness_bin', 'edge_betweenness_wei'))
    name, a, b = unit
    t = Tally(PROPERTY)
    if name in NAMED:
        fam = named.family(name.split(':')[1])
        for idx in range(a, b):
            label, X = fam[idx]
            case = {'family': name, 'index': idx, 'graph': label, 'X': X}
            if check_case(t, X, case, 'bin' in name):
                t.c['nontrivial'] += 1
        return t
    directed, n, alpha, _ = FAMILIES[name]
    for idx in range(a, b):
        X = ss.dir_graph(n, alpha, idx) if directed else ss.und_graph(n, alpha, idx)
        case = {'family': name, 'index': idx, 'X': X}
        if check_case(t, X, case, alpha == BIN):
            t.c['nontrivial'] += 1
            if idx % 101 == 3:
                t.sample(case, order=-n * 10 ** 7 + idx)
    return t


def replay(rec):
    if rec['case'].get('family') == 'element_types':
        return dtypes.replay(PROPERTY, ETYPE_FUNCS, rec['case'])
    t = Tally(PROPERTY)
    c = rec['case']
    if c.get('family') == 'float32_near_ties':
        return work_f32(c['index'], c['index'] + 1)
    if c.get('family') == 'named:large_und':
        return work_large(c['index'])
    check_case(t, np.array(c['X'], dtype=float), c, ('bin' in c['family']) if c['family'].startswith('named') else FAMILIES[c['family']][2] == BIN)
    return t
