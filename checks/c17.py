"""C17 - thresholding and weight conversion keep exactly the documented entries.

Engine B: every small matrix over a few-letter alphabet x full dyadic p grid /
every threshold value x copy flag, against elementwise reference definitions
and exact rational round-half-up.
"""
from fractions import Fraction

import numpy as np

import bct
from bctmc import smallscope as ss
from bctmc import oracles as orc
from bctmc.runner import guarded
from bctmc.tally import Tally

PROPERTY = 'C17'
RULE = ('threshold_proportional: all matrices over {0,1,2,3} on 1-2 nodes (p*count = 0.5 is reachable only there), all symmetric matrices over {0,1,2,3} on 3-4 nodes and all matrices over {0,1,2,3} '
        'on 3 nodes and binary on 4 nodes, zero and non-zero diagonal (every third matrix also with a NaN and an infinite diagonal), p on the dyadic grid j/32 (j=0..32) plus '
        '0.1,0.3,0.7, copy in {True,False} (thorough: symmetric {0,1,2} on 5 nodes, {0,1,2} on 4 nodes with p=j/8); '
        'other utilities: all matrices over {-2,-1,0,1,2} on 3 nodes and symmetric on 4 nodes x thr in every value '
        'and midpoint; non-trivial = (matrix,p) where p*M falls on x.5, or where weights tie across the cut, or '
        'fewer connections exist than requested')
ASSUMPTIONS = ['with copy=False the argument is passed C-ordered, Fortran-ordered, as a strided view, as well as - for every fifth matrix of a family and all matrices on 1-2 nodes - as float32, as big-endian float64 and as int64, plus int8 matrices using the full range -128..127 with copy=True (an integer array cannot hold 1/w or w/max: invert / normalize must then reject the in-place call with BCTParamError and, with copy=True, return the float result) (the contract and the values must not depend on layout or element type; float32 results are checked for the contract only)',
               'float64 inputs; p values are dyadic (exact products) or far from a .5 boundary',
               'expected count = round-half-up of the exact rational p*M']

P_GRID = [j / 32.0 for j in range(33)] + [0.1, 0.3, 0.7]
P_GRID8 = [j / 8.0 for j in range(9)]
REAL = (-2, -1, 0, 1, 2)
FAMILIES = {
    'tp_dir1': ('tp', True, 1, (0, 1), P_GRID, 'q'), 'tp_dir2': ('tp', True, 2, (0, 1, 2, 3), P_GRID, 'q'),
    'tp_sym2': ('tp', False, 2, (0, 1, 2, 3), P_GRID, 'q'), 'tp_sym3': ('tp', False, 3, (0, 1, 2, 3), P_GRID, 'q'),
    'ut_dir2': ('ut', True, 2, REAL, None, 'q'), 'ut_dir1': ('ut', True, 1, REAL, None, 'q'),
    'tp_sym4': ('tp', False, 4, (0, 1, 2, 3), P_GRID, 'q'),
    'tp_dir3': ('tp', True, 3, (0, 1, 2, 3), P_GRID, 'q'),
    'tp_dirbin4': ('tp', True, 4, (0, 1), P_GRID, 'q'),
    'tp_sym5': ('tp', False, 5, (0, 1, 2), P_GRID, 't'),
    'tp_dir4': ('tp', True, 4, (0, 1, 2), P_GRID8, 't'),
    'ut_dir3': ('ut', True, 3, REAL, None, 'q'),
    'ut_sym4': ('ut', False, 4, REAL, None, 'q'),
}
THR_GRID = [x * 0.5 for x in range(-5, 6)]


def plan(ctx):
    units = []
    for name, (kind, directed, n, alpha, grid, tier) in FAMILIES.items():
        if tier == 't' and not ctx.thorough:
            continue
        tot = ss.dir_count(n, alpha) if directed else ss.und_count(n, alpha)
        for (a, b) in ss.ranges(tot, max(1, min(512, tot // 64))):
            units.append((name, a, b))
    return units


def round_half_up(fr):
    fl = fr.numerator // fr.denominator
    rem = fr - fl
    return fl + (1 if rem >= Fraction(1, 2) else 0)


def with_diag(A, variant):
    A = A.copy()
    if variant == 'diag':
        np.fill_diagonal(A, [5.0 + k for k in range(len(A))])
    elif variant == 'nandiag':
        np.fill_diagonal(A, np.nan)          # the usual way of marking self-connections as missing
    elif variant == 'infdiag':
        np.fill_diagonal(A, np.inf)
    return A


def check_copy(t, fname, case, arg, before, out, copy):
    """copy=True: argument untouched, result a different buffer; copy=False: result is the argument."""
    if copy:
        if not np.array_equal(arg, before, equal_nan=True) or arg.dtype != before.dtype:
            t.viol(fname, 'copy_true_argument_untouched', case, observed=arg, expected=before)
        if out is arg or (isinstance(out, np.ndarray) and np.shares_memory(out, arg)):
            t.viol(fname, 'copy_true_returns_new_array', case)
    else:
        if out is not arg:
            t.viol(fname, 'copy_false_returns_argument', case)


def check_tp(t, W, p, copy, case):
    res = False
    for lname, arg in (layouts(W) if (copy is False and p in (0.25, 0.5, 1.0)) else [('C', W.copy())]):
        res = _check_tp(t, W, arg, p, copy, dict(case, layout=lname))
    return res


def _check_tp(t, W, arg, p, copy, case):
    n = len(W)
    st, out = guarded(bct.threshold_proportional, arg, p, copy=copy)
    if st != 'ok':
        t.viol('threshold_proportional', 'raises', case, observed=out)
        return False
    check_copy(t, 'threshold_proportional', case, arg, W, out, copy)
    out = np.asarray(out, dtype=float)
    W0 = W.copy()
    np.fill_diagonal(W0, 0)          # (not W - diag(W): the diagonal may hold NaN or inf)
    sym = np.array_equal(W0, W0.T)
    ud = 2 if sym else 1
    exact = Fraction(p) * (n * n - n) / ud
    frac = exact - (exact.numerator // exact.denominator)
    if frac != Fraction(1, 2) and abs(frac - Fraction(1, 2)) < Fraction(1, 10 ** 9):
        raise RuntimeError('p grid too close to a rounding boundary: %r' % p)
    en = round_half_up(exact)
    if sym:
        cells = [(i, j) for i in range(n) for j in range(i + 1, n)]
    else:
        cells = [(i, j) for i in range(n) for j in range(n) if i != j]
    existing = [c for c in cells if W0[c] != 0]
    want = min(en, len(existing))
    kept = [c for c in cells if out[c] != 0]
    tags = {'symmetric': sym, 'half': frac == Fraction(1, 2)}
    if np.any(np.diag(out) != 0):
        t.viol('threshold_proportional', 'diagonal_cleared', case, observed=out, tags=tags)
    if sym and not np.array_equal(out, out.T):
        t.viol('threshold_proportional', 'symmetric_output', case, observed=out, tags=tags)
    if len(kept) != want:
        t.viol('threshold_proportional', 'count', case, observed=len(kept), expected=want, tags=tags,
               detail={'out': out})
    bad = [c for c in kept if out[c] != W0[c]]
    if bad:
        t.viol('threshold_proportional', 'kept_values_unchanged', case, observed=out, expected=W0, tags=tags)
    dropped = [c for c in existing if out[c] == 0]
    if kept and dropped and min(W0[c] for c in kept) < max(W0[c] for c in dropped):
        t.viol('threshold_proportional', 'strongest_kept', case, observed=out, expected=W0, tags=tags)
    tie = bool(kept and dropped and min(W0[c] for c in kept) == max(W0[c] for c in dropped))
    return frac == Fraction(1, 2) or tie or en > len(existing)


ETYPES = [True]          # element-type variants for the current matrix (every fifth matrix of a family)


def layouts(W):
    """the same matrix as a C-ordered array, a Fortran-ordered array and a strided view into a larger buffer"""
    yield 'C', W.copy()
    yield 'F', np.asfortranarray(W.copy())
    if not ETYPES[0]:
        big = np.zeros((2 * W.shape[0], 2 * W.shape[1]))
        big[::2, ::2] = W
        yield 'strided', big[::2, ::2]
        return
    # element types other than native float64 (the alphabets are small integers: exactly representable)
    yield 'float32', W.astype(np.float32)
    yield 'bigendian', W.astype('>f8')
    yield 'int64', W.astype(np.int64)
    big = np.zeros((2 * W.shape[0], 2 * W.shape[1]))
    big[::2, ::2] = W
    yield 'strided', big[::2, ::2]


def call_util(t, fname, case, f, W, copy, *extra):
    out = None
    for lname, arg in (layouts(W) if copy is False else [('C', W.copy())]):
        out = _call_util(t, fname, dict(case, layout=lname), f, W, arg, copy, *extra)
        if out is None:
            return None
    return out


INT_CANNOT_HOLD = ('invert', 'normalize', 'weight_conversion[lengths]', 'weight_conversion[normalize]')


def _call_util(t, fname, case, f, W, arg, copy, *extra):
    st, out = guarded(f, arg, *extra, copy=copy)
    key = fname if fname != 'weight_conversion' else 'weight_conversion[%s]' % case.get('wcm')
    if case.get('layout') == 'int64' and copy is False and key in INT_CANNOT_HOLD:
        # an integer array cannot hold 1/w or w/max: the only honest answer to "in place" is a rejection
        if not (st == 'exc' and isinstance(out, bct.BCTParamError)):
            t.viol(fname, 'integer_matrix_in_place_rejected', case, observed=out, expected='BCTParamError')
        elif not np.array_equal(arg, W):
            t.viol(fname, 'rejected_call_leaves_argument', case, observed=arg, expected=W)
        ref = {'invert': 'invert', 'normalize': 'normalize', 'weight_conversion[lengths]': 'invert',
               'weight_conversion[normalize]': 'normalize'}[key]
        return np.asarray(REF[ref](W), dtype=float)      # what the float call returns, for the caller's value checks
    if st != 'ok':
        t.viol(fname, 'raises', case, observed=out)
        return None
    check_copy(t, fname, case, arg, W, out, copy)
    if case.get('layout') not in ('C', 'float32') and hasattr(f, '__name__') and f.__name__ in REF:
        # the result must not depend on the memory layout of the argument
        if not orc.close(np.asarray(out, dtype=float), REF[f.__name__](W, *extra)):
            t.viol(fname, 'definition', case, observed=out, expected=REF[f.__name__](W, *extra))
            return None
    return np.asarray(out, dtype=float)


REF = {
    'binarize': lambda W: (W != 0).astype(float),
    'invert': lambda W: np.where(W != 0, 1.0 / np.where(W != 0, W, 1.0), 0.0),
    'normalize': lambda W: W / np.max(np.abs(W)),
    'threshold_absolute': lambda W, thr: np.where(orc.offdiag(len(W)) & (W >= thr), W, 0.0),
}


def check_utils(t, W, case):
    n = len(W)
    nontriv = 0
    off = orc.offdiag(n)
    for copy in (True, False):
        c = dict(case, copy=copy)
        for thr in THR_GRID:
            out = call_util(t, 'threshold_absolute', dict(c, thr=thr), bct.threshold_absolute, W, copy, thr)
            t.c['evaluations'] += 1
            if out is not None:
                exp = np.where(off & (W >= thr), W, 0.0)
                if not np.array_equal(out, exp):
                    t.viol('threshold_absolute', 'kept_entries', dict(c, thr=thr), observed=out, expected=exp)
                if np.any(W[off] == thr):
                    nontriv += 1
        for fname, wcm in (('binarize', 'binarize'), ('normalize', 'normalize'), ('invert', 'lengths')):
            if fname == 'normalize' and not np.any(W):
                continue
            out = call_util(t, fname, c, getattr(bct, fname), W, copy)
            t.c['evaluations'] += 1
            if out is None:
                continue
            if fname == 'binarize':
                exp = (W != 0).astype(float)
            elif fname == 'normalize':
                exp = W / np.max(np.abs(W))
                if not orc.close(np.max(np.abs(out)), 1.0):
                    t.viol(fname, 'largest_magnitude_one', c, observed=out)
            else:
                exp = np.where(W != 0, 1.0 / np.where(W != 0, W, 1.0), 0.0)
                st, back = guarded(bct.invert, out.copy(), copy=True)
                if st != 'ok' or not orc.close(back, W):
                    t.viol(fname, 'involution', c, observed=back, expected=W)
            if not orc.close(out, exp):
                t.viol(fname, 'definition', c, observed=out, expected=exp)
            if copy:
                # integer input with copy=True: the same values as for float input, argument untouched
                Wi = W.astype(np.int64)
                st, oi = guarded(getattr(bct, fname), Wi, copy=True)
                if st != 'ok':
                    t.viol(fname, 'raises', dict(c, layout='int64'), observed=oi)
                else:
                    if not orc.close(np.asarray(oi, dtype=float), exp):
                        t.viol(fname, 'definition', dict(c, layout='int64'), observed=oi, expected=exp)
                    if not np.array_equal(Wi, W) or Wi.dtype != np.int64:
                        t.viol(fname, 'copy_true_argument_untouched', dict(c, layout='int64'), observed=Wi, expected=W)
                # a narrow integer type that uses its full range (-128 is the one value whose magnitude does not fit)
                if ETYPES[0]:
                    W8 = np.clip(W * 64, -128, 127).astype(np.int8)
                    if np.any(W8):
                        W8f = W8.astype(float)
                        exp8 = {'binarize': (W8f != 0).astype(float), 'normalize': W8f / np.max(np.abs(W8f)),
                                'invert': np.where(W8f != 0, 1.0 / np.where(W8f != 0, W8f, 1.0), 0.0)}[fname]
                        st, o8 = guarded(getattr(bct, fname), W8.copy(), copy=True)
                        if st != 'ok':
                            t.viol(fname, 'raises', dict(c, layout='int8_full_range', W=W8), observed=o8)
                        elif not orc.close(np.asarray(o8, dtype=float), exp8):
                            t.viol(fname, 'definition', dict(c, layout='int8_full_range', W=W8), observed=o8, expected=exp8)
            out2 = call_util(t, 'weight_conversion', dict(c, wcm=wcm),
                             lambda X, copy: bct.weight_conversion(X, wcm, copy=copy), W, copy)
            if out2 is not None and not orc.close(out2, exp):
                t.viol('weight_conversion', 'dispatch_' + wcm, dict(c, wcm=wcm), observed=out2, expected=exp)
    st, out = guarded(bct.weight_conversion, W.copy(), 'nonsense')
    if not (st == 'exc' and isinstance(out, NotImplementedError)):
        t.viol('weight_conversion', 'unknown_command_rejected', case, observed=out)
    return nontriv


def work(unit):
    name, a, b = unit
    kind, directed, n, alpha, grid, _ = FAMILIES[name]
    t = Tally(PROPERTY)
    for idx in range(a, b):
        A = ss.dir_graph(n, alpha, idx) if directed else ss.und_graph(n, alpha, idx)
        ETYPES[0] = (idx % 5 == 0) or n <= 2
        for variant in (('plain', 'diag', 'nandiag', 'infdiag') if (kind == 'tp' and idx % 3 == 0) else ('plain', 'diag')):
            W = with_diag(A, variant)
            base = {'family': name, 'index': idx, 'variant': variant, 'W': W}
            if kind == 'tp':
                for p in grid:
                    for copy in (True, False):
                        case = dict(base, p=p, copy=copy)
                        t.c['evaluations'] += 1
                        if check_tp(t, W, p, copy, case) and copy:
                            t.c['nontrivial'] += 1
                            if idx % 397 == 11 and p == 0.25:
                                t.sample(case, order=-n * 10 ** 7 + idx)
                for p in (-0.125, 1.125):
                    st, out = guarded(bct.threshold_proportional, W.copy(), p)
                    if not (st == 'exc' and isinstance(out, bct.BCTParamError)):
                        t.viol('threshold_proportional', 'p_out_of_range_rejected', dict(base, p=p), observed=out)
            else:
                nt = check_utils(t, W, base)
                t.c['nontrivial'] += nt
                if nt and idx % 997 == 13:
                    t.sample(base, order=-n * 10 ** 7 + idx)
    return t


def replay(rec):
    t = Tally(PROPERTY)
    c = rec['case']
    W = np.array(c['W'], dtype=float)
    kind = FAMILIES[c['family']][0]
    if kind == 'tp' and 'copy' in c:
        check_tp(t, W, c['p'], c['copy'], c)
    elif kind == 'tp':
        st, out = guarded(bct.threshold_proportional, W.copy(), c['p'])
        if not (st == 'exc' and isinstance(out, bct.BCTParamError)):
            t.viol('threshold_proportional', 'p_out_of_range_rejected', c, observed=out)
    else:
        base = {k: c[k] for k in ('family', 'index', 'variant')}
        base['W'] = W
        check_utils(t, W, base)
    return t
