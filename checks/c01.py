"""C01 - degree-preserving rewiring keeps every node's degree and the weight multiset.

Engine A (rngmc): for every configuration (routine x input graph x budget) ALL answer
sequences of the random generator are explored on the real code with state merging;
oracle on every completed execution + role-based state invariants at every new state.
"""
import numpy as np

import bct
from bctmc import rewiring as rw
from bctmc import smallscope as ss
from bctmc.tally import Tally

PROPERTY = 'C01'
RULE = ('configurations = routine x input x budget; inputs: every labelled 4-node graph with two vertex-disjoint edges '
        '(binary, distinct weights, and on a subset weights of 1e-9, negative weights, Fortran-ordered input), named 5-6 node graphs (path, cycle, star+edge, bow-tie, matching, bridged '
        'triangles), every 4-node digraph with 2-3 (thorough 4) arcs containing two vertex-disjoint arcs, named 5-6 node '
        'digraphs; budgets 0,1,2 outer iterations (thorough 3); latticisers with all n! initial node orders, with D absent, with the default D passed explicitly and with another symmetric D; '
        'randomizer_bin_und on every 4- and 5-node graph x alpha in {0,0.5,1} and on the 110 six-node graphs made of an unconnected node (first or last) plus a 5-node rest with 8 or 9 connections (complement path and masked full node together) x alpha in {0.5,1} by plain enumeration; every configuration is '
        'explored over ALL generator answers; a configuration is non-trivial when >= 2 distinct outputs are reachable')
ASSUMPTIONS = ['continuous draws are only compared with thresholds by these routines; they are represented by one point on '
               'each side of every threshold', 'state merging by live-variable state keys (DESIGN.md 1.3), cross-checked '
               'against stateless enumeration by selftest/selftest.py',
               'float64 inputs with empty diagonal']


EXPLICIT_D4 = [[0, 1, 2, 1], [1, 0, 1, 2], [2, 1, 0, 1], [1, 2, 1, 0]]       # what the latticisers build for n = 4 when D is None
OTHER_D4 = [[0, 1, 3, 2], [1, 0, 2, 3], [3, 2, 0, 1], [2, 3, 1, 0]]


def catalogue(thorough):
    cfgs = []
    iters_list = (0, 1, 2, 3) if thorough else (0, 1, 2)
    und4 = rw.und4_all()
    # undirected swappers
    for fn in ('randmio_und', 'randmio_und_connected'):
        for tag, n, edges in und4 + rw.NAMED_UND:
            for weighted in (False, True):
                W = rw.und_from_edges(n, edges, weighted)
                if fn.endswith('_connected') and not ss.is_connected(W):
                    continue
                for iters in iters_list:
                    if iters >= 3 and (len(edges) > 5 or weighted):
                        continue
                    if n >= 6 and iters >= 2 and not thorough:
                        continue
                    cfgs.append({'fn': fn, 'tag': tag + ('_w' if weighted else ''), 'W': W,
                                 'params': {'iters': iters}})
    # representation / tolerance variants on a few inputs: tiny weights (below common tolerances), negative weights,
    # Fortran-ordered input
    for fn, pool, builder in (('randmio_und', und4[::6] + rw.NAMED_UND[:2], rw.und_from_edges),
                              ('randmio_und_connected', rw.NAMED_UND[:2], rw.und_from_edges),
                              ('randmio_dir', rw.dir4_all(2, 3)[::12] + rw.NAMED_DIR[:1], rw.dir_from_arcs),
                              ('randmio_dir_connected', rw.NAMED_DIR[:2], rw.dir_from_arcs)):
        for tag, n, es in pool:
            W = builder(n, es, True)
            for vname, V in (('tiny', W * 1e-9), ('neg', -W), ('forder', np.asfortranarray(W))):
                if vname == 'neg' and fn.endswith('_connected'):
                    continue
                cfgs.append({'fn': fn, 'tag': tag + '_w_' + vname, 'W': V, 'params': {'iters': 2}})
    # partial randomisation with masks
    for tag, n, edges in und4 + rw.NAMED_UND[:4]:
        W = rw.und_from_edges(n, edges, True)
        masks = {'none': np.zeros((n, n))}
        one = np.zeros((n, n))
        holes = [(a, b) for a in range(n) for b in range(a + 1, n) if W[a, b] == 0]
        if holes:
            a, b = holes[0]
            one[a, b] = one[b, a] = 1
            masks['one_cell'] = one
        for mname, B in masks.items():
            for ms in ((0, 1, 2, 3) if thorough else (0, 1, 2)):
                if ms >= 3 and len(edges) > 4:
                    continue
                cfgs.append({'fn': 'randomize_graph_partial_und', 'tag': tag + '_w_mask_' + mname, 'W': W,
                             'params': {'B': B, 'maxswap': ms}})
    # directed swappers
    dir4 = rw.dir4_all(2, 4 if thorough else 3)
    for fn in ('randmio_dir', 'randmio_dir_connected'):
        for tag, n, arcs in dir4 + rw.NAMED_DIR:
            for weighted in (False, True):
                W = rw.dir_from_arcs(n, arcs, weighted)
                if fn.endswith('_connected') and not ss.strongly_connected(W):
                    continue
                for iters in iters_list:
                    if iters >= 3 and (len(arcs) > 5 or weighted):
                        continue
                    cfgs.append({'fn': fn, 'tag': tag + ('_w' if weighted else ''), 'W': W,
                                 'params': {'iters': iters}})
    # latticisers: integer itr only (k*itr outer iterations), first draw = permutation(n)
    for fn in rw.LATTICE:
        und = 'und' in fn
        pool = [c for c in (und4 if und else rw.dir4_all(2, 3)) if 2 <= len(c[2]) <= (3 if thorough else 2)]
        if not thorough:
            pool = pool[::2]
        named = [('und5_0123_24', 5, [(0, 1), (2, 3), (2, 4)])] if (thorough and und) else \
            ([('dir5_0123_42', 5, [(0, 1), (2, 3), (4, 2)])] if thorough else [])   # 3 connections: 3 iterations x 120 orders
        for tag, n, es in pool + named:
            W = rw.und_from_edges(n, es, True) if und else rw.dir_from_arcs(n, es, True)
            if fn.endswith('_connected'):
                if und and not ss.is_connected(W):
                    continue
                if not und and not ss.strongly_connected(W):
                    continue
            for itr in (0, 1):
                cfgs.append({'fn': fn, 'tag': tag + '_w', 'W': W, 'params': {'itr': itr, 'D': None}})
                # the optional distance matrix supplied by the caller (the default one passed explicitly, and another)
                if n == 4:
                    cfgs.append({'fn': fn, 'tag': tag + '_w_Dexplicit', 'W': W, 'params': {'itr': itr, 'D': EXPLICIT_D4}})
                    if itr == 1:
                        cfgs.append({'fn': fn, 'tag': tag + '_w_Dother', 'W': W, 'params': {'itr': itr, 'D': OTHER_D4}})
    # a few strongly connected digraphs for latmio_dir_connected (4-cycle with chords)
    for tag, n, arcs in (('dcycle4', 4, [(0, 1), (1, 2), (2, 3), (3, 0)]),
                         ('dcycle4_chord', 4, [(0, 1), (1, 2), (2, 3), (3, 0), (0, 2)]))[:2 if thorough else 1]:
        W = rw.dir_from_arcs(n, arcs, True)
        for itr in (0, 1):
            cfgs.append({'fn': 'latmio_dir_connected', 'tag': tag + '_w', 'W': W, 'params': {'itr': itr, 'D': None}})
            cfgs.append({'fn': 'latmio_dir', 'tag': tag + '_w', 'W': W, 'params': {'itr': itr, 'D': None}})
    for tag, n, edges in (('cycle4', 4, [(0, 1), (1, 2), (2, 3), (0, 3)]), ('path4', 4, [(0, 1), (1, 2), (2, 3)]),
                          ('star4', 4, [(0, 1), (0, 2), (0, 3)])):
        if tag == 'cycle4':
            continue        # 4 edges -> 4 iterations x 24 node orders: > 1.5M states, beyond the thorough budget
        W = rw.und_from_edges(n, edges, True)
        for itr in (0, 1):
            cfgs.append({'fn': 'latmio_und_connected', 'tag': tag + '_w', 'W': W, 'params': {'itr': itr, 'D': None}})
    # randomizer_bin_und: finite tree, every 5-node graph (and 4-node)
    for n in (4, 5):
        for idx in range(ss.und_count(n, (0, 1))):
            A = ss.und_graph(n, (0, 1), idx)
            for alpha in (0.0, 0.5, 1.0):
                cfgs.append({'fn': 'randomizer_bin_und', 'tag': 'und%d_%d' % (n, idx), 'W': A,
                             'params': {'alpha': alpha}})
    # 6 nodes: a dense graph (so the routine works on the complement) with an unconnected node (so the complement has a
    # fully connected node, which is masked and restored) - the two special paths together, which no 5-node graph that can
    # still be rewired reaches; the unconnected node first or last, every 5-node rest with 8 or 9 of its 10 connections
    for idx in range(ss.und_count(5, (0, 1))):
        B = ss.und_graph(5, (0, 1), idx)
        if B.sum() / 2 not in (8, 9):
            continue
        for pos in (0, 5):
            keep = [q for q in range(6) if q != pos]
            A = np.zeros((6, 6))
            A[np.ix_(keep, keep)] = B
            for alpha in (0.5, 1.0):
                cfgs.append({'fn': 'randomizer_bin_und', 'tag': 'und6iso%d_%d' % (pos, idx), 'W': A,
                             'params': {'alpha': alpha}})
    return cfgs


THOROUGH = [False]


def plan(ctx):
    THOROUGH[0] = ctx.thorough      # inherited by the forked workers
    cfgs = catalogue(ctx.thorough)
    small = [c for c in cfgs if c['fn'] == 'randomizer_bin_und']
    big = [c for c in cfgs if c['fn'] != 'randomizer_bin_und']
    units = [[c] for c in big]
    for k in range(0, len(small), 40):
        units.append(small[k:k + 40])
    return units


def unit_cost(unit):
    c = unit[0]
    p = c['params']
    return len(c['W']) * 3 + 4 * p.get('iters', p.get('maxswap', p.get('itr', 0))) + (6 if c['fn'].startswith('latmio') else 0)


def degs(M):
    S = (np.asarray(M) != 0)
    return S.sum(axis=0), S.sum(axis=1)


def judge_matrix(t, cfg, R, W, case_fn, label=''):
    fn = cfg['fn']
    bad = False
    R = np.asarray(R)
    if R.shape != W.shape:
        t.viol(fn, label + 'shape', case_fn(), observed=R.shape, expected=W.shape)
        return True
    Rf = R.astype(float)
    di, do = degs(W)
    ri, ro = degs(Rf)
    if not (np.array_equal(di, ri) and np.array_equal(do, ro)):
        t.viol(fn, label + 'degrees', case_fn(), observed=[ri, ro], expected=[di, do], detail={'output': Rf})
        bad = True
    if fn != 'randomizer_bin_und':
        if sorted(Rf[Rf != 0].tolist()) != sorted(W[W != 0].tolist()):
            t.viol(fn, label + 'weight_multiset', case_fn(), observed=sorted(Rf[Rf != 0].tolist()),
                   expected=sorted(W[W != 0].tolist()))
            bad = True
    if np.any(np.diag(Rf) != 0):
        t.viol(fn, label + 'no_self_connection', case_fn(), observed=np.diag(Rf))
        bad = True
    if fn in rw.UNDIRECTED and not np.array_equal(Rf, Rf.T):
        t.viol(fn, label + 'symmetric', case_fn(), observed=Rf)
        bad = True
    if fn not in rw.UNDIRECTED and not np.allclose(Rf.sum(axis=1), W.sum(axis=1)):
        t.viol(fn, label + 'out_strength', case_fn(), observed=Rf.sum(axis=1), expected=W.sum(axis=1))
        bad = True
    return bad


def judge(t, cfg, status, value, case_fn):
    fn = cfg['fn']
    W = np.array(cfg['W'], dtype=float)
    p = cfg['params']
    if status != 'ok':
        if fn == 'randomizer_bin_und' and isinstance(value, bct.BCTParamError):
            t.c['documented_rejections'] += 1
            return False
        t.viol(fn, 'raises' if status == 'exc' else 'does_not_terminate', case_fn(), observed=value)
        return True
    bad = False
    if fn in rw.LATTICE:
        Rlatt, Rrp, ind_rp, eff = value
        ind = np.asarray(ind_rp)
        n = len(W)
        if sorted(ind.tolist()) != list(range(n)):
            t.viol(fn, 'ordering_is_permutation', case_fn(), observed=ind)
            return True
        bad |= judge_matrix(t, cfg, Rlatt, W, case_fn)
        Rl = np.asarray(Rlatt, dtype=float)
        Rr = np.asarray(Rrp, dtype=float)
        if Rl.shape == Rr.shape and not np.array_equal(Rr, Rl[np.ix_(ind, ind)]):
            t.viol(fn, 'lattice_order_is_reindexed_result', case_fn(), observed={'Rrp': Rr, 'Rlatt': Rl, 'ind_rp': ind},
                   tags={'identity_order': bool(np.array_equal(ind, np.arange(n)))})
            bad = True
        zero = p['itr'] == 0 or eff == 0
        out = Rl
    elif fn == 'randomize_graph_partial_und':
        out = np.asarray(value, dtype=float)
        bad |= judge_matrix(t, cfg, out, W, case_fn)
        zero = p['maxswap'] == 0
        eff = None
    elif fn == 'randomizer_bin_und':
        out = np.asarray(value, dtype=float)
        bad |= judge_matrix(t, cfg, out, W, case_fn)
        zero = p['alpha'] == 0.0
        eff = None
    else:
        R, eff = value
        out = np.asarray(R, dtype=float)
        bad |= judge_matrix(t, cfg, out, W, case_fn)
        zero = p['iters'] == 0 or eff == 0
    if zero and out.shape == W.shape and not np.array_equal(out, W):
        t.viol(fn, 'zero_rewirings_returns_input', case_fn(), observed=out, expected=W,
               tags={'eff': None if eff is None else int(eff)})
        bad = True
    return bad


def invariant(t, cfg, frames, case_fn):
    """Role-based state invariant at every new choice-point state of the swap loops:
    the slot arrays name exactly the present connections and degrees are the input's."""
    fn = cfg['fn']
    if fn == 'randomizer_bin_und':
        return
    f = rw.find_frame(frames, fn)
    if f is None:
        t.c['state_invariant_skipped'] += 1
        return
    loc = f.f_locals
    Rn = 'A' if fn == 'randomize_graph_partial_und' else 'R'
    if not all(k in loc for k in (Rn, 'i', 'j')):
        t.c['state_invariant_skipped'] += 1
        return
    R = np.asarray(loc[Rn], dtype=float)
    i, j = np.asarray(loc['i']), np.asarray(loc['j'])
    W = np.array(cfg['W'], dtype=float)
    if fn in rw.LATTICE:
        ind = loc.get('ind_rp')
        if ind is None:
            t.c['state_invariant_skipped'] += 1
            return
        W = W[np.ix_(ind, ind)]
    t.c['state_invariants_checked'] += 1
    if fn in rw.UNDIRECTED:
        slots = sorted(tuple(sorted((int(a), int(b)))) for a, b in zip(i, j))
        present = sorted((a, b) for a in range(len(R)) for b in range(a + 1, len(R)) if R[a, b] != 0 or R[b, a] != 0)
    else:
        slots = sorted((int(a), int(b)) for a, b in zip(i, j))
        present = sorted((a, b) for a in range(len(R)) for b in range(len(R)) if R[a, b] != 0)
    if slots != present:
        t.viol(fn, 'state:slots_name_present_connections', case_fn(), observed=slots, expected=present)
    di, do = degs(W)
    ri, ro = degs(R)
    if not (np.array_equal(di, ri) and np.array_equal(do, ro)):
        t.viol(fn, 'state:degrees_unchanged', case_fn(), observed=[ri, ro], expected=[di, do])


def work(unit):
    t = Tally(PROPERTY)
    for cfg in unit:
        if cfg['fn'] == 'randomizer_bin_und':
            t.merge(rw.explore_config(PROPERTY, cfg, judge, None))
        else:
            t.merge(rw.explore_config(PROPERTY, cfg, judge, invariant, max_executions=3000000 if THOROUGH[0] else 300000))
    return t


def coverage(ctx, total):
    c = total.c
    return {'states': int(c['states']), 'transitions': int(c['transitions']),
            'traces_validated_against_impl': int(c['executions']),
            'explanation': 'every transition is an execution of the real bct function under the scripted generator; '
                           'traces_validated_against_impl = executions (complete + pruned at a known state)'}


def replay(rec):
    return rw.replay_case(PROPERTY, rec, judge, invariant)
