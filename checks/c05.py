"""C05 - seeded calls are reproducible and never touch the global random stream.

Engine C (histories): explicit-state BFS over operation sequences {seed global, draw global,
seeded call (int), seeded call (RandomState), unseeded call} on the real library, against a
mirror model of numpy's global generator.  Engine A: for every function, generator-answer
paths under the scripted generator with the global generator state snapshotted around
every execution (a stray global draw on any explored path is caught).
"""
import hashlib
import pickle
import random

import numpy as np

import bct
from bctmc import seedtable as stb
from bctmc.explorer import Explorer, Unmodelled
from bctmc.runner import quiet, guarded
from bctmc.tally import Tally

PROPERTY = 'C05'
RULE = ('for every public callable with a seed parameter (discovered by introspection) x 1-2 tiny argument tuples: '
        'breadth-first search over all operation sequences up to depth 4 (quick) / 5 (thorough) over the alphabet '
        '{np.random.seed(0), np.random.seed(1), one global draw, call(seed=0), call(seed=1), call(seed=-1), call(seed=2**40+3), '
        'call(seed=RandomState(0)), call(seed=RandomState(1)), call()} with states identified by the global generator state; plus scripted-generator '
        'exploration (first 300 / 3000 executions in deviation order) with global-state snapshots; non-trivial = distinct '
        '(function, argument tuple, reachable global state) triples expanded')
ASSUMPTIONS = ['mirror model: a private RandomState that receives the same seed()/rand() operations; an unseeded call must '
               'equal the same call with seed=<mirror> and leave the global generator in the mirror\'s state',
               'results compared structurally with NaN-equality; exceptions by type and message',
               'engine A part is bounded by an execution cap (reported), the history search is complete for its depth']

OPS = ('G0', 'G1', 'D', 'S0', 'S1', 'R0', 'R1', 'U', 'Sneg', 'Sbig', 'Su32', 'Si32', 'Su8')
# neg/big: outside RandomState's range (get_rng folds them); u32/i32/u8: numpy integer scalars of other widths than the
# platform default (what SeedSequence.generate_state or an element of an int32 array gives) - the same seeds as 1, 0, 1
SEEDS = {'0': 0, '1': 1, 'neg': -1, 'big': 2 ** 40 + 3, 'u32': np.uint32(1), 'i32': np.int32(0), 'u8': np.uint8(1)}


def plan(ctx):
    units = []
    for name in stb.seed_accepting():
        entry = stb.TABLE.get(name, 'missing')
        if isinstance(entry, list):
            for idx in range(len(entry)):
                units.append(('hist', name, idx, 5 if ctx.thorough else 4))
                units.append(('paths', name, idx, 3000 if ctx.thorough else 300))
        else:
            units.append(('special', name, entry, 0))
    for name in stb.LARGE_SIGNED:
        units.append(('large', name, 0, 0))
    return units


def large(t, name):
    """the three clauses, once each, on a 220-node signed network (one call is hundreds of node picks)."""
    a, kw = stb.LARGE_SIGNED[name]
    f = getattr(bct, name)
    res = {}
    for k in (0, 1):
        for g in (123, 999):
            np.random.seed(g)
            before = gstate()
            r = f(*stb.clone(a), **dict(stb.clone(kw), seed=k))
            t.c['evaluations'] += 1
            case = {'function': name, 'large': True, 'seed': k, 'global_seed': g}
            if not states_equal(gstate(), before):
                t.viol(name, 'seeded_call_leaves_global_generator_untouched', case, tags={'seed_kind': 'int'})
            if k in res and not same(res[k], r):
                t.viol(name, 'same_seed_same_result', case, observed=short(r), expected=short(res[k]))
            res.setdefault(k, r)
        r = f(*stb.clone(a), **dict(stb.clone(kw), seed=np.random.RandomState(k)))
        t.c['evaluations'] += 1
        if not same(res[k], r):
            t.viol(name, 'same_seed_same_result', {'function': name, 'large': True, 'seed': k, 'as': 'RandomState'},
                   observed=short(r), expected=short(res[k]), tags={'first_obtained_by': 'S', 'now': 'R'})
    t.c['nontrivial'] += 1


def same(a, b):
    if isinstance(a, BaseException) or isinstance(b, BaseException):
        return type(a) is type(b) and str(a) == str(b)
    if isinstance(a, (tuple, list)):
        return isinstance(b, (tuple, list)) and len(a) == len(b) and all(same(x, y) for x, y in zip(a, b))
    if isinstance(a, dict):
        return isinstance(b, dict) and sorted(map(repr, a)) == sorted(map(repr, b)) and \
            all(same(a[k], b[k]) for k in a)
    try:
        x, y = np.asarray(a), np.asarray(b)
        if x.dtype == object or y.dtype == object:
            return repr(a) == repr(b)
        return x.shape == y.shape and bool(np.array_equal(x, y, equal_nan=True)) if x.dtype.kind in 'fc' \
            else x.shape == y.shape and bool(np.array_equal(x, y))
    except Exception:
        return repr(a) == repr(b)


def gstate():
    return np.random.get_state()


def state_bytes(st):
    return hashlib.blake2b(pickle.dumps((st[0], st[1].tobytes(), st[2], st[3], st[4])), digest_size=12).digest()


def states_equal(a, b):
    return a[0] == b[0] and np.array_equal(a[1], b[1]) and a[2:] == b[2:]


class NoReturn(Exception):
    pass


def run_call(name, idx, seed_kw, timeout=10):
    """call under a wall-clock alarm: a call that does not return is an outcome (and a violation), never a hang"""
    st, out = guarded(stb.call, name, idx, seed_kw, _timeout=timeout)
    if st == 'timeout':
        # a loaded machine can make a legitimate call slow: only a call that also fails a much longer second
        # attempt counts as not returning
        st, out = guarded(stb.call, name, idx, seed_kw, _timeout=30 * timeout)
        if st == 'timeout':
            return NoReturn('call did not return within %ds' % (30 * timeout))
    return out


def short(x):
    s = repr(x)
    return s if len(s) < 300 else s[:300] + '...'


def histories(t, name, idx, depth):
    """BFS; a state = (global numpy state, python random state); memo of seeded results is global
    to the search (a seeded result may never depend on the history)."""
    memo = {}
    np.random.seed(12345)
    random.seed(12345)
    init = (gstate(), random.getstate())
    seen = {state_bytes(init[0])}
    frontier = [((), init)]
    for level in range(depth):
        nxt = []
        for hist, (gs, ps) in frontier:
            for op in OPS:
                np.random.set_state(gs)
                random.setstate(ps)
                mirror = np.random.RandomState()
                mirror.set_state(gs)
                h2 = hist + (op,)
                case = {'function': name, 'args_index': idx, 'history': list(h2)}
                t.c['transitions'] += 1
                t.c['evaluations'] += 1
                if op[0] == 'G':
                    np.random.seed(int(op[1]))
                    mirror.seed(int(op[1]))
                elif op == 'D':
                    x, y = np.random.rand(), mirror.rand()
                    if x != y:
                        raise RuntimeError('mirror model broken')
                elif op[0] in 'SR':
                    k = SEEDS[op[1:]]
                    seed = k if op[0] == 'S' else np.random.RandomState(k)
                    r = run_call(name, idx, {'seed': seed})
                    if isinstance(r, NoReturn):
                        t.viol(name, 'seeded_call_returns', case, observed=str(r),
                               tags={'seed_kind': 'int' if op[0] == 'S' else 'RandomState'})
                        t.flags['history_search_cut_short_by_non_returning_call'] += 1
                        return      # every further history would wait for the alarm again
                    if not states_equal(gstate(), gs):
                        t.viol(name, 'seeded_call_leaves_global_generator_untouched', case,
                               tags={'seed_kind': 'int' if op[0] == 'S' else 'RandomState'})
                    if random.getstate() != ps:
                        t.viol(name, 'seeded_call_leaves_python_random_untouched', case)
                    if k in memo:
                        if not same(memo[k][0], r):
                            t.viol(name, 'same_seed_same_result', case, observed=short(r), expected=short(memo[k][0]),
                                   tags={'first_obtained_by': memo[k][1], 'now': op})
                    else:
                        memo[k] = (r, op)
                else:  # U
                    r = run_call(name, idx, {})
                    after = gstate()
                    pafter = random.getstate()
                    np.random.set_state(gs)
                    random.setstate(ps)
                    pred = run_call(name, idx, {'seed': mirror})
                    if not states_equal(gstate(), gs):
                        t.viol(name, 'seeded_call_leaves_global_generator_untouched', case,
                               tags={'seed_kind': 'mirror RandomState'})
                    np.random.set_state(after)
                    random.setstate(pafter)
                    if not same(r, pred):
                        t.viol(name, 'unseeded_result_is_function_of_global_state', case, observed=short(r),
                               expected=short(pred))
                    if not states_equal(after, mirror.get_state()):
                        t.viol(name, 'unseeded_call_consumes_only_the_global_stream', case)
                    if pafter != ps:
                        t.viol(name, 'unseeded_call_leaves_python_random_untouched', case)
                new = (gstate(), random.getstate())
                if op[0] in 'GD' and not states_equal(new[0], mirror.get_state()):
                    raise RuntimeError('mirror model broken')
                key = state_bytes(new[0])
                if key not in seen:
                    seen.add(key)
                    nxt.append((h2, new))
                    t.c['states'] += 1
                    t.c['nontrivial'] += 1
                if len(t.samples) < 1 and level == depth - 1 and op == 'U':
                    t.sample(case, order=hash(name) % 1000)
        frontier = nxt
    t.c['executions'] += t.c['transitions']


def paths(t, name, idx, cap):
    """Scripted-generator exploration with a global-state snapshot around every execution."""
    np.random.seed(777)
    random.seed(777)

    def run(rng):
        before = gstate()
        pbefore = random.getstate()
        try:
            return ('ok', stb.call(name, idx, {'seed': rng}))
        finally:
            touched = not states_equal(gstate(), before) or random.getstate() != pbefore
            if touched:
                run.touched = True
                np.random.set_state(before)
                random.setstate(pbefore)
    run.touched = False

    def on_complete(status, value, trace):
        t.c['evaluations'] += 1
        if run.touched:
            run.touched = False
            t.viol(name, 'scripted_path_leaves_global_generator_untouched',
                   {'function': name, 'args_index': idx, 'answers': list(trace)})
            return True
        return False
    ex = Explorer(run, max_executions=cap, vec_unit_points=(0.25, 0.75))
    with quiet():
        st = ex.explore(on_complete)
    if run.touched:      # an aborted (pruned) execution touched the global state
        t.viol(name, 'scripted_path_leaves_global_generator_untouched',
               {'function': name, 'args_index': idx, 'answers': 'a pruned execution'})
    t.c['pathA_executions'] += st['executions']
    t.c['pathA_states'] += st['states']
    t.c['executions'] += st['executions']
    if st['capped']:
        t.c['pathA_capped_configs'] += 1
    if st['unmodelled_draws']:
        t.c['pathA_unmodelled_draws'] += st['unmodelled_draws']


def special(t, name, entry):
    case = {'function': name}
    if name == 'get_rng':
        np.random.seed(5)
        gs = gstate()
        a = bct.get_rng(7).rand(3)
        b = bct.get_rng(np.random.RandomState(7)).rand(3)
        rs = np.random.RandomState(3)
        t.c['evaluations'] += 4
        if not np.array_equal(a, b):
            t.viol(name, 'int_seed_equals_RandomState_of_it', case, observed=a, expected=b)
        if bct.get_rng(rs) is not rs:
            t.viol(name, 'RandomState_passed_through', case)
        if not states_equal(gstate(), gs):
            t.viol(name, 'seeded_call_leaves_global_generator_untouched', case)
        g = bct.get_rng(None)
        g2 = bct.get_rng(np.random)
        x = g.rand()
        np.random.set_state(gs)
        y = np.random.rand()
        if x != y or g is not g2:
            t.viol(name, 'unseeded_is_global_generator', case)
        t.c['nontrivial'] += 1
    elif entry == 'stub':
        np.random.seed(5)
        gs = gstate()
        try:
            getattr(bct, name)(np.eye(3), 1.0, seed=3)
        except NotImplementedError:
            pass
        except Exception as e:  # noqa: BLE001
            t.note('%s raised %s' % (name, type(e).__name__))
        t.c['evaluations'] += 1
        if not states_equal(gstate(), gs):
            t.viol(name, 'seeded_call_leaves_global_generator_untouched', case)
    else:
        t.note('seed-accepting function without an argument table entry (uncovered): %s' % name)
        t.flags['uncovered_seed_accepting_function'] += 1


def work(unit):
    kind, name, a, b = unit
    t = Tally(PROPERTY)
    saved = (gstate(), random.getstate())
    try:
        if kind == 'hist':
            histories(t, name, a, b)
        elif kind == 'paths':
            paths(t, name, a, b)
        elif kind == 'large':
            large(t, name)
        else:
            special(t, name, a)
    finally:
        np.random.set_state(saved[0])
        random.setstate(saved[1])
    t.c['functions_x_args' if kind == 'hist' else 'other_units'] += 1
    return t


def coverage(ctx, total):
    c = total.c
    return {'states': int(c['states']), 'transitions': int(c['transitions']),
            'traces_validated_against_impl': int(c['executions'])}


def replay(rec):
    t = Tally(PROPERTY)
    case = rec['case']
    name = case['function']
    if case.get('large'):
        large(t, name)
    elif 'history' in case:
        histories(t, name, case['args_index'], len(case['history']))
    elif 'answers' in case:
        paths(t, name, case['args_index'], 3000)
    else:
        special(t, name, stb.TABLE.get(name))
    return t
