"""C06 - signed null models keep each node's positive/negative degree and all weights.

Engine A (rngmc): all generator answers (every node quadruple pick incl. rejected ones,
every dealing order of the weights) for randmio_und_signed / randmio_dir_signed /
null_model_und_sign / null_model_dir_sign on 4-node signed inputs with distinct magnitudes.
"""
import itertools

import numpy as np

import bct
from bctmc import rewiring as rw
from bctmc import smallscope as ss
from bctmc import oracles as orc
from bctmc.tally import Tally

PROPERTY = 'C06'
RULE = ('a 220-node signed network (a third of the cells positive, a third negative) under the generator seeded with 0..3 (not exhaustive over answers: the picker of four nodes changes its arithmetic beyond 215 nodes and has no enumerable menu there); inputs: symmetric sign patterns over {-,0,+} on 4 nodes with >=1 positive and >=1 negative pair and distinct '
        'magnitudes (quick: a fixed third of the patterns with <=4 non-zero pairs; thorough: all of them and <=5), directed '
        'sign patterns on swap quads (+ reciprocal / extra arcs); budgets 1-2 iterations; null models: bin_swaps in {0, one '
        'iteration} x wei_freq in {0, 1, 0.5}, <=3 positive and <=3 negative connections (permutation menus <= 6!), plus '
        '5-node inputs whose negative support is one representative per isomorphism class of 5-edge (thorough: and 6-edge) '
        'graphs with tied dyadic magnitudes from {1/4,1/2,1} x wei_freq in {0.25,0.5,1}, and 5-node undirected / directed inputs with 5-6 negative connections x wei_freq in '
        '{0.4, 0.7, 0.8} (not reciprocals of integers), inputs with one sign absent and fully connected 3-node inputs (the null models then skip the rewiring), inputs whose weights carry a common offset of 10^8; ALL '
        'generator answers per configuration; non-trivial = configuration with >= 2 distinct reachable outputs')
ASSUMPTIONS = ['distinct integer magnitudes so every weight is identifiable (4-node inputs); tied dyadic magnitudes with additive '
               'coincidences on the 5-node null-model inputs', 'state merging as in C01',
               'correlations compared NaN-equal with the Pearson correlation of the strength sequences of input and returned matrix evaluated in exact rational arithmetic (tolerance 1e-9; 1e-6 on the inputs with weights 10^8+k)']


def und_patterns(max_nonzero):
    pairs = ss.und_pairs(4)
    out = []
    for signs in itertools.product((0, 1, -1), repeat=6):
        nz = [s for s in signs if s]
        if not (1 in nz and -1 in nz) or len(nz) > max_nonzero:
            continue
        first = next(s for s in signs if s)
        if first < 0:
            continue            # up to simultaneous sign flip
        W = np.zeros((4, 4))
        for k, ((a, b), s) in enumerate(zip(pairs, signs)):
            W[a, b] = W[b, a] = s * (k + 1.0)
        out.append(('s' + ''.join('0+-'[s] for s in signs), W))
    return out


def dir_patterns(thorough):
    arcsets = [
        [(0, 1), (2, 3), (0, 3), (2, 1)],
        [(0, 1), (2, 3), (0, 3), (2, 1), (1, 0)],
        [(0, 1), (2, 3), (0, 3)],
        [(0, 1), (2, 3), (1, 2), (3, 0)],
        [(0, 1), (2, 3), (0, 3), (2, 1), (1, 0), (3, 2)],
    ]
    out = []
    for ai, arcs in enumerate(arcsets):
        if len(arcs) > 5 and not thorough:
            continue
        for signs in itertools.product((1, -1), repeat=len(arcs)):
            if len(set(signs)) < 2:
                continue
            W = np.zeros((4, 4))
            for k, ((a, b), s) in enumerate(zip(arcs, signs)):
                W[a, b] = s * (k + 1.0)
            out.append(('d%d_' % ai + ''.join('+' if s > 0 else '-' for s in signs), W))
    return out


_ISO = {}


def iso_classes5(sizes):
    """(class tag, edge list) for one representative (smallest bitmask) per isomorphism class of graphs on 5 nodes
    with the given numbers of edges."""
    pairs = ss.und_pairs(5)
    out = []
    for m in sizes:
        if m not in _ISO:
            seen = {}
            for es in itertools.combinations(range(len(pairs)), m):
                best = None
                for p in itertools.permutations(range(5)):
                    mask = 0
                    for e in es:
                        a, b = pairs[e]
                        a2, b2 = sorted((p[a], p[b]))
                        mask |= 1 << pairs.index((a2, b2))
                    best = mask if best is None or mask < best else best
                seen.setdefault(best, [pairs[e] for e in es])
            _ISO[m] = [('%de%d' % (m, k), v) for k, (_, v) in enumerate(sorted(seen.items()))]
        out += _ISO[m]
    return out


def catalogue(thorough):
    cfgs = []
    up = und_patterns(5 if thorough else 4)
    if not thorough:
        up = up[::3]
    for tag, W in up:
        for iters in (1, 2):
            if iters == 2 and not thorough and np.count_nonzero(np.triu(W)) > 3:
                continue
            cfgs.append({'fn': 'randmio_und_signed', 'tag': tag, 'W': W, 'params': {'iters': iters}})
    dp = dir_patterns(thorough)
    if not thorough:
        dp = dp[::2]
    for tag, W in dp:
        for iters in ((1, 2) if thorough else (1,)):
            cfgs.append({'fn': 'randmio_dir_signed', 'tag': tag, 'W': W, 'params': {'iters': iters}})
    # null models
    small_u = [(tag, W) for tag, W in und_patterns(6)
               if np.sum(np.triu(W) > 0) <= 3 and np.sum(np.triu(W) < 0) <= 3]
    small_u = small_u[::(7 if not thorough else 2)]
    for tag, W in small_u:
        for bi in (0, 1):
            for wf in (0, 1, 0.5):
                cfgs.append({'fn': 'null_model_und_sign', 'tag': tag, 'W': W,
                             'params': {'bin_iters': bi, 'wei_freq': wf}})
    # tie-rich dyadic weights with additive coincidences (w1+w2 == w3) on 5 nodes: running strengths can hit
    # exactly zero while connections are still to be dealt
    neg_e = [(0, 1), (0, 2), (1, 3), (2, 4), (3, 4)]
    pos_e = [((0, 3), 1.0), ((1, 4), 0.5)]
    assign = list(itertools.product((0.25, 0.5), repeat=len(neg_e)))
    for k, ws in enumerate(assign if thorough else assign[::3]):
        W = np.zeros((5, 5))
        for (a, b), w in zip(neg_e, ws):
            W[a, b] = W[b, a] = -w
        for (a, b), w in pos_e:
            W[a, b] = W[b, a] = w
        for wf in (0.25, 0.5, 1):
            cfgs.append({'fn': 'null_model_und_sign', 'tag': 'tie5_%d' % k, 'W': W,
                         'params': {'bin_iters': 0, 'wei_freq': wf}})
    # one representative per isomorphism class of 5- and 6-edge graphs on 5 nodes as negative support, every
    # assignment of magnitudes {1/4, 1/2, 1} (quick: every assignment over {1/2, 1}, 5-edge classes only; thorough: {1/4,1/2,1} on 5-edge, {1/2,1} on 6-edge classes)
    for cls, edges in iso_classes5((5, 6) if thorough else (5,)):
        allw = list(itertools.product((0.25, 0.5, 1.0) if (thorough and len(edges) == 5) else (0.5, 1.0),
                                      repeat=len(edges)))
        for k, ws in enumerate(allw):
            W = np.zeros((5, 5))
            for (a, b), w in zip(edges, ws):
                W[a, b] = W[b, a] = -w
            free = [(a, b) for a in range(5) for b in range(a + 1, 5) if W[a, b] == 0]
            if free:
                a, b = free[0]
                W[a, b] = W[b, a] = 1.0
            for wf in (0.25, 0.5, 1):
                cfgs.append({'fn': 'null_model_und_sign', 'tag': 'neg5_%s_%d' % (cls, k), 'W': W,
                             'params': {'bin_iters': 0, 'wei_freq': wf}})
    # frequencies that are not reciprocals of integers (period and number of rounds are rounded separately) need
    # at least 4-5 connections of one sign
    for k, (cls, edges) in enumerate(iso_classes5((5,))[:2 if not thorough else 6]):
        W = np.zeros((5, 5))
        for m, (a, b) in enumerate(edges):
            W[a, b] = W[b, a] = -(0.5 + 0.5 * (m % 2))
        free = [(a, b) for a in range(5) for b in range(a + 1, 5) if W[a, b] == 0]
        if free:
            W[free[0]] = W[free[0][::-1]] = 1.0
        for wf in ((0.4, 0.7, 0.8) if thorough else (0.4, 0.7)):
            cfgs.append({'fn': 'null_model_und_sign', 'tag': 'frac_%s' % cls, 'W': W,
                         'params': {'bin_iters': 0, 'wei_freq': wf}})
    for k, arcs in enumerate(([(0, 1), (1, 2), (2, 3), (3, 4), (4, 0)], [(0, 1), (0, 2), (1, 2), (3, 0), (2, 4)],
                              [(0, 1), (1, 0), (2, 3), (3, 2), (4, 1)])):
        W = np.zeros((5, 5))
        for m, (a, b) in enumerate(arcs):
            W[a, b] = -(0.5 + 0.5 * (m % 2))
        W[0, 3] = 1.0
        W[2, 0] = 0.5 if k else 0.0
        for wf in ((0.4, 0.7, 0.8, 1, 0.5) if thorough else (0.4, 0.7)):
            cfgs.append({'fn': 'null_model_dir_sign', 'tag': 'dfrac_%d' % k, 'W': W,
                         'params': {'bin_iters': 0, 'wei_freq': wf, 'dir_rewirer': True}})
    # one sign absent (the 'adjust for absent weights' paths), and fully connected positive input (the branch of the
    # null models that skips the rewiring)
    def one_sign(n, pairs, sgn, directed):
        W = np.zeros((n, n))
        for k, (a, b) in enumerate(pairs):
            W[a, b] = sgn * (k + 1.0)
            if not directed:
                W[b, a] = W[a, b]
        return W
    for sgn, sname in ((1, 'pos'), (-1, 'neg')):
        for pname, pairs in (('path', [(0, 1), (1, 2), (2, 3)]), ('two', [(0, 1), (2, 3)]), ('cyc', [(0, 1), (1, 2), (2, 3), (0, 3)])):
            W = one_sign(4, pairs, sgn, False)
            cfgs.append({'fn': 'randmio_und_signed', 'tag': 'only%s_%s' % (sname, pname), 'W': W, 'params': {'iters': 1}})
            for bi in (0, 1):
                for wf in (1, 0.5):
                    cfgs.append({'fn': 'null_model_und_sign', 'tag': 'only%s_%s' % (sname, pname), 'W': W,
                                 'params': {'bin_iters': bi, 'wei_freq': wf}})
            Wd = one_sign(4, pairs, sgn, True)
            cfgs.append({'fn': 'randmio_dir_signed', 'tag': 'only%s_%s' % (sname, pname), 'W': Wd, 'params': {'iters': 1}})
            for bi in (0, 1):
                cfgs.append({'fn': 'null_model_dir_sign', 'tag': 'only%s_%s' % (sname, pname), 'W': Wd,
                             'params': {'bin_iters': bi, 'wei_freq': 1, 'dir_rewirer': True}})
        K3 = one_sign(3, [(0, 1), (0, 2), (1, 2)], sgn, False)
        K3d = K3 + one_sign(3, [(1, 0), (2, 0), (2, 1)], sgn, True) * 0 + np.tril(K3) * 0.5
        for wf in (1, 0.5):
            cfgs.append({'fn': 'null_model_und_sign', 'tag': 'full%s_K3' % sname, 'W': K3, 'params': {'bin_iters': 1, 'wei_freq': wf}})
            cfgs.append({'fn': 'null_model_dir_sign', 'tag': 'full%s_K3' % sname, 'W': K3d,
                         'params': {'bin_iters': 1, 'wei_freq': wf, 'dir_rewirer': True}})
    K3m = np.array([[0, 1.0, -2.0], [1.0, 0, 3.0], [-2.0, 3.0, 0]])
    for wf in (1, 0.5):
        cfgs.append({'fn': 'null_model_und_sign', 'tag': 'fullmixed_K3', 'W': K3m, 'params': {'bin_iters': 1, 'wei_freq': wf}})
        cfgs.append({'fn': 'null_model_dir_sign', 'tag': 'fullmixed_K3', 'W': K3m + np.tril(K3m) * 0.5,
                     'params': {'bin_iters': 1, 'wei_freq': wf, 'dir_rewirer': True}})
    small_d = [(tag, W) for tag, W in dir_patterns(thorough) if np.count_nonzero(W) <= 5]
    small_d = small_d[::(3 if not thorough else 1)]
    for tag, W in small_d:
        for bi in (0, 1):
            for wf in (0, 1, 0.5):
                cfgs.append({'fn': 'null_model_dir_sign', 'tag': tag, 'W': W,
                             'params': {'bin_iters': bi, 'wei_freq': wf, 'dir_rewirer': True}})
    # weights with a large common offset (10^8 + k): strengths are large compared with their spread, which is where
    # a one-pass correlation formula loses all its digits
    for tag, W in small_u[:(8 if thorough else 3)]:
        Wb = np.sign(W) * (1e8 + np.abs(W)) * (W != 0)
        for wf in (1, 0.5):
            cfgs.append({'fn': 'null_model_und_sign', 'tag': tag + '_offset1e8', 'W': Wb, 'params': {'bin_iters': 1, 'wei_freq': wf}})
    # ... and degree-regular ones, where every strength is the same large number up to a few units
    ring = np.zeros((4, 4))
    for k, (a, b) in enumerate([(0, 1), (1, 2), (2, 3), (0, 3)]):
        ring[a, b] = ring[b, a] = 1e8 + k + 1
    for k, (a, b) in enumerate([(0, 2), (1, 3)]):
        ring[a, b] = ring[b, a] = -(1e8 + 3 * k + 2)
    for wf in (1, 0.5):
        cfgs.append({'fn': 'null_model_und_sign', 'tag': 'regular4_offset1e8', 'W': ring, 'params': {'bin_iters': 0, 'wei_freq': wf}})
    dring = np.zeros((4, 4))
    for k, (a, b) in enumerate([(0, 1), (1, 2), (2, 3), (3, 0)]):
        dring[a, b] = 1e8 + k + 1
    for k, (a, b) in enumerate([(0, 2), (1, 3), (2, 0), (3, 1)]):
        dring[a, b] = -(1e8 + 2 * k + 1)
    cfgs.append({'fn': 'null_model_dir_sign', 'tag': 'dregular4_offset1e8', 'W': dring,
                 'params': {'bin_iters': 0, 'wei_freq': 1, 'dir_rewirer': True}})
    for tag, W in small_d[:(8 if thorough else 3)]:
        Wb = np.sign(W) * (1e8 + np.abs(W)) * (W != 0)
        cfgs.append({'fn': 'null_model_dir_sign', 'tag': tag + '_offset1e8', 'W': Wb,
                     'params': {'bin_iters': 1, 'wei_freq': 1, 'dir_rewirer': True}})
    return cfgs


THOROUGH = [False]


def plan(ctx):
    THOROUGH[0] = ctx.thorough
    from bctmc import seedtable as stb
    return [[c] for c in catalogue(ctx.thorough)] + [('large', name) for name in stb.LARGE_SIGNED_DENSE]


def unit_cost(unit):
    if unit[0] == 'large':
        return 1
    c = unit[0]
    return len(c['W']) * 10 + (5 if c['params'].get('wei_freq') == 1 else 0) + c['params'].get('iters', 0)


def sign_degrees(M):
    P = M > 0
    N = M < 0
    return [P.sum(axis=0).tolist(), P.sum(axis=1).tolist(), N.sum(axis=0).tolist(), N.sum(axis=1).tolist()]


def judge_matrix(t, fn, R, W, case_fn):
    bad = False
    R = np.asarray(R, dtype=float)
    if R.shape != W.shape:
        t.viol(fn, 'shape', case_fn(), observed=R.shape)
        return True
    if sign_degrees(R) != sign_degrees(W):
        t.viol(fn, 'signed_degrees', case_fn(), observed=sign_degrees(R), expected=sign_degrees(W), detail={'output': R})
        bad = True
    for nm, sel in (('positive', lambda X: X[X > 0]), ('negative', lambda X: X[X < 0])):
        if sorted(sel(R).tolist()) != sorted(sel(W).tolist()):
            t.viol(fn, nm + '_weight_multiset', case_fn(), observed=sorted(sel(R).tolist()),
                   expected=sorted(sel(W).tolist()), detail={'output': R})
            bad = True
    if np.any(np.diag(R) != 0):
        t.viol(fn, 'empty_diagonal', case_fn(), observed=np.diag(R))
        bad = True
    if 'und' in fn and not np.array_equal(R, R.T):
        t.viol(fn, 'symmetric', case_fn(), observed=R)
        bad = True
    return bad


def exact_pearson(x, y):
    """Pearson correlation of two float vectors in exact rational arithmetic (NaN when a variance is zero)."""
    from fractions import Fraction
    import math
    xs = [Fraction(float(v)) for v in x]
    ys = [Fraction(float(v)) for v in y]
    n = len(xs)
    mx, my = sum(xs) / n, sum(ys) / n
    sxy = sum((a - mx) * (b - my) for a, b in zip(xs, ys))
    sxx = sum((a - mx) ** 2 for a in xs)
    syy = sum((b - my) ** 2 for b in ys)
    if sxx == 0 or syy == 0:
        return float('nan')
    r2 = sxy * sxy / (sxx * syy)
    return math.copysign(math.sqrt(float(r2)), float(sxy)) if sxy != 0 else 0.0


def judge(t, cfg, status, value, case_fn):
    fn = cfg['fn']
    W = np.array(cfg['W'], dtype=float)
    if status != 'ok':
        t.viol(fn, 'raises' if status == 'exc' else 'does_not_terminate', case_fn(), observed=value)
        return True
    if fn.startswith('randmio'):
        R, eff = value
        bad = judge_matrix(t, fn, R, W, case_fn)
        if eff == 0 and not np.array_equal(np.asarray(R, dtype=float), W):
            t.viol(fn, 'zero_rewirings_returns_input', case_fn(), observed=R, expected=W)
            bad = True
        return bad
    W0, corr = value
    W0 = np.asarray(W0, dtype=float)
    bad = judge_matrix(t, fn, W0, W, case_fn)
    if W0.shape == W.shape:
        exp = []
        for sgn in (1, -1):
            for ax in (0, 1):
                x = np.sum(sgn * W * (sgn * W > 0), axis=ax)
                y = np.sum(sgn * W0 * (sgn * W0 > 0), axis=ax)
                exp.append(exact_pearson(x, y))
        # strengths of the order 10^8 with a spread of a few units: a careful two-pass evaluation is good to ~1e-8
        tol = 1e-6 if np.max(np.abs(W)) > 1e6 else 1e-9
        got = np.asarray(corr, dtype=float)
        expa = np.asarray(exp, dtype=float)
        if got.shape != expa.shape or not np.all((np.isnan(got) & np.isnan(expa)) | (np.abs(got - expa) <= tol)):
            t.viol(fn, 'strength_correlations', case_fn(), observed=corr, expected=exp, detail={'output': W0})
            bad = True
    return bad


def invariant(t, cfg, frames, case_fn):
    for name in ('randmio_und_signed', 'randmio_dir_signed'):
        f = rw.find_frame(frames, name)
        if f is not None and isinstance(f.f_locals.get('R'), np.ndarray) and 'eff' in f.f_locals:
            R = np.asarray(f.f_locals['R'], dtype=float)
            W = np.array(cfg['W'], dtype=float)
            np.fill_diagonal(W, 0)
            t.c['state_invariants_checked'] += 1
            if cfg['fn'] == 'null_model_dir_sign' and name == 'randmio_und_signed':
                continue
            if sign_degrees(R) != sign_degrees(W):
                t.viol(cfg['fn'], 'state:signed_degrees_unchanged', case_fn(), observed=sign_degrees(R),
                       expected=sign_degrees(W))
            return
    t.c['state_invariant_skipped'] += 1


def work_large(name):
    """220 nodes (the node picker of the signed rewirers changes its arithmetic beyond 215): no menu can be enumerated
    there; the routine is run under the generator seeded with 0..3 - a stated four-element set of answer streams."""
    from bctmc import seedtable as stb
    from bctmc.runner import guarded
    t = Tally(PROPERTY)
    a, kw = stb.LARGE_SIGNED_DENSE[name]
    W = np.array(a[0], dtype=float)
    for seed in (0, 1, 2, 3):
        st, out = guarded(getattr(bct, name), *stb.clone(a), _timeout=600, **dict(stb.clone(kw), seed=seed))
        t.c['evaluations'] += 1
        t.c['large_size_executions'] += 1
        case = {'config': {'fn': name, 'W': 'seedtable.LARGE_SIGNED_DENSE', 'params': {k: v for k, v in kw.items()}}, 'large': True, 'seed': seed}
        if st != 'ok':
            t.viol(name, 'raises' if st == 'exc' else 'does_not_terminate', case, observed=out)
            continue
        R = np.asarray(out[0], dtype=float)
        if sign_degrees(R) != sign_degrees(W):
            t.viol(name, 'signed_degrees', case)
        for nm, sel in (('positive', lambda X: X[X > 0]), ('negative', lambda X: X[X < 0])):
            if sorted(sel(R).tolist()) != sorted(sel(W).tolist()):
                t.viol(name, nm + '_weight_multiset', case)
        if np.any(np.diag(R) != 0):
            t.viol(name, 'empty_diagonal', case, observed=int(np.count_nonzero(np.diag(R))))
        if 'und' in name and not np.array_equal(R, R.T):
            t.viol(name, 'symmetric', case)
    t.c['nontrivial'] += 1
    return t


def work(unit):
    if unit and unit[0] == 'large':
        return work_large(unit[1])
    t = Tally(PROPERTY)
    for cfg in unit:
        t.merge(rw.explore_config(PROPERTY, cfg, judge, invariant,
                                  max_executions=3000000 if THOROUGH[0] else 400000))
    return t


def coverage(ctx, total):
    c = total.c
    return {'states': int(c['states']), 'transitions': int(c['transitions']),
            'traces_validated_against_impl': int(c['executions'])}


def replay(rec):
    if rec['case'].get('large'):
        return work_large(rec['case']['config']['fn'])
    return rw.replay_case(PROPERTY, rec, judge, invariant)
