"""C14 - partition-consuming functions depend on the partition, not on label values.

Engine B: every set partition of 4 (5) nodes x a fixed family of injective relabellings x
every small network, for each function taking a community vector; partition_distance on all
ordered pairs of partitions; ci2ls/ls2ci round trips.
"""
import itertools

import numpy as np

import bct
from bctmc import smallscope as ss
from bctmc import oracles as orc
from bctmc.runner import guarded
from bctmc.tally import Tally
from bctmc import dtypes

PROPERTY = 'C14'
RULE = ('a 300-node ring lattice with 281 communities (more than 255 labels) for participation_coef (definition and relabelling), module_degree_zscore and the signed coefficients (relabelling); element types: every routine also on int64 / int32 / uint8 / bool copies of all 4-node graphs over {-1,0,1} and 3-node digraphs over {0,1,2} x 3 partitions (same values as for float64; integers must not raise, a boolean matrix may be rejected with TypeError); all 15 set partitions of 4 nodes x relabelling family {zero-based, reversed, x10, sparse, +10^6, float, negative, all '
        'renamings for k<=3} x W in {all 64 binary 4-node graphs, weights {0,1,2} (729) and {0,1/2,1} (729), 3-node digraphs over {0,1/2,2} (729), signed {-1,0,1} (729), binary '
        'digraphs with <=... (every 16th of 4096)} for participation_coef (3 degree modes), participation_coef_sign, '
        'module_degree_zscore (flags 0-3), diversity_coef_sign, gateway_coef_sign (2 centrality types), modularity_und/_dir '
        '(kci), modularity_und_sign; partition_distance on all ordered pairs of partitions of 4 and 5 nodes (2704), the second vector also as float and uint64 against every relabelling of the first (mixed element types), with '
        'relabellings of each side; agreement (buffsz default, 1, 2, 3) / agreement_weighted on all pairs and triples of 4-node partitions; ci2ls/ls2ci (zeroindexed False and True) on '
        'every partition and relabelling (thorough: 5-node partitions x 5-node binary graphs); non-trivial = (W, partition) '
        'with 2 <= k < n modules and at least one connection inside and one between modules')
ASSUMPTIONS = ['relabellings are injective maps applied to a 1..k label vector (bctmc.smallscope.relabellings)',
               'results compared with tolerance 1e-9, NaN-equal; both sides raising the same exception type counts as equal',
               'when both partitions are the single block the normalised MI is 0/0 (NaN, as in the MATLAB original); that '
               'pair is excluded from the "MIn == 1 iff equal" clause and counted separately']


def functions_for(kind):
    F = []
    if kind in ('bu', 'wu'):
        for deg in ('undirected',):
            F.append(('participation_coef[%s]' % deg, lambda W, ci, deg=deg: bct.participation_coef(W, ci, degree=deg)))
        for flag in (0,):
            F.append(('module_degree_zscore[%d]' % flag, lambda W, ci, flag=flag: bct.module_degree_zscore(W, ci, flag)))
        F.append(('modularity_und[kci]', lambda W, ci: bct.modularity_und(W, kci=ci)[1]))
        F.append(('participation_coef_sparse', lambda W, ci: bct.participation_coef_sparse(W, ci)))
    if kind == 'bd':
        for deg in ('in', 'out'):
            F.append(('participation_coef[%s]' % deg, lambda W, ci, deg=deg: bct.participation_coef(W, ci, degree=deg)))
        for flag in (1, 2, 3):
            F.append(('module_degree_zscore[%d]' % flag, lambda W, ci, flag=flag: bct.module_degree_zscore(W, ci, flag)))
        F.append(('modularity_dir[kci]', lambda W, ci: bct.modularity_dir(W, kci=ci)[1]))
    if kind == 'su':
        F.append(('participation_coef_sign', bct.participation_coef_sign))
        F.append(('diversity_coef_sign', bct.diversity_coef_sign))
        for ct in ('degree', 'betweenness'):
            F.append(('gateway_coef_sign[%s]' % ct, lambda W, ci, ct=ct: bct.gateway_coef_sign(W, ci, centrality_type=ct)))
        for qt in ('sta', 'gja'):
            F.append(('modularity_und_sign[%s]' % qt, lambda W, ci, qt=qt: bct.modularity_und_sign(W, ci, qtype=qt)[1]))
    return F


FAMILIES = {
    'bu4': ('bu', False, 4, (0, 1), 1, 'q'), 'wu4': ('wu', False, 4, (0, 1, 2), 1, 'q'),
    'wh4': ('wu', False, 4, (0, 0.5, 1), 1, 'q'),      # weights below 1: strengths differ from neighbour counts
    'wd3': ('bd', True, 3, (0, 0.5, 2), 1, 'q'),
    'su4': ('su', False, 4, (-1, 0, 1), 1, 'q'), 'bd4': ('bd', True, 4, (0, 1), 16, 'q'),
    'bu5': ('bu', False, 5, (0, 1), 1, 't'), 'bd4_all': ('bd', True, 4, (0, 1), 1, 't'),
    'su4w': ('su', False, 4, (-2, 0, 1), 1, 't'),
}


_CI4 = (np.array([1, 1, 2, 2]), np.array([1, 2, 2, 3]), np.array([7, 3, 7, 3]))


def _with_ci(f):
    return lambda A: tuple(f(A, ci[:len(A)].copy()) for ci in _CI4)


ETYPE_FUNCS = [
    ('participation_coef', _with_ci(lambda A, ci: bct.participation_coef(A, ci)), lambda A, d: not d),
    ('participation_coef[in]', _with_ci(lambda A, ci: bct.participation_coef(A, ci, degree='in')), lambda A, d: d),
    ('module_degree_zscore', _with_ci(lambda A, ci: bct.module_degree_zscore(A, ci)), lambda A, d: not d),
    ('module_degree_zscore[3]', _with_ci(lambda A, ci: bct.module_degree_zscore(A, ci, 3)), lambda A, d: d),
    ('participation_coef_sign', _with_ci(bct.participation_coef_sign), lambda A, d: not d),
    ('diversity_coef_sign', _with_ci(bct.diversity_coef_sign), lambda A, d: not d),
    ('modularity_und_sign', _with_ci(lambda A, ci: bct.modularity_und_sign(A, ci)[1]), lambda A, d: not d),
    ('modularity_und[kci]', _with_ci(lambda A, ci: bct.modularity_und(A, kci=ci)[1]), lambda A, d: not d),
    ('modularity_dir[kci]', _with_ci(lambda A, ci: bct.modularity_dir(A, kci=ci)[1]), lambda A, d: d),
]


def plan(ctx):
    units = []
    for name, (kind, directed, n, alpha, stride, tier) in FAMILIES.items():
        if tier == 't' and not ctx.thorough:
            continue
        tot = ss.dir_count(n, alpha) if directed else ss.und_count(n, alpha)
        idxs = list(range(0, tot, stride))
        for k in range(0, len(idxs), max(1, len(idxs) // 48)):
            units.append(('fun', name, idxs[k:k + max(1, len(idxs) // 48)]))
    for n in ((4, 5) if True else (4,)):
        parts = ss.set_partitions(n)
        for k in range(0, len(parts), 4):
            units.append(('pd', n, list(range(k, min(len(parts), k + 4)))))
    units.append(('agree', 4, None))
    units.append(('ls', 5 if ctx.thorough else 4, None))
    units.append(('large', 0, None))
    units += dtypes.units([(False, 4, (-1, 0, 1)), (True, 3, (0, 1, 2))])
    return units


def result(f, *args):
    st, out = guarded(f, *[a.copy() if isinstance(a, np.ndarray) else a for a in args])
    if st != 'ok':
        return ('exc', type(out).__name__, str(out)[:80])
    return ('ok', out)


def same_result(a, b):
    if a[0] != b[0]:
        return False
    if a[0] == 'exc':
        return a[1] == b[1]
    fa = a[1] if isinstance(a[1], tuple) else (a[1],)
    fb = b[1] if isinstance(b[1], tuple) else (b[1],)
    return len(fa) == len(fb) and all(orc.close(np.asarray(x, dtype=float), np.asarray(y, dtype=float))
                                      for x, y in zip(fa, fb))


def work_large():
    """more than 255 communities (a narrow label type would wrap): a 300-node ring lattice, 281 communities."""
    t = Tally(PROPERTY)
    n = 300
    W = np.zeros((n, n))
    for i in range(n):
        for d in (1, 2, 7):
            W[i, (i + d) % n] = W[(i + d) % n, i] = 1.0 + (d % 2)
    ci = np.concatenate([np.ones(20, dtype=int), np.arange(2, n - 20 + 2)])
    relab = {'reversed': ci.max() + 1 - ci, 'gapped': ci * 7 + 3, 'zero_based': ci - 1}
    # definition: P_i = 1 - sum_m (k_i(m) / k_i)^2
    k = W.sum(axis=1)
    P = np.ones(n)
    for m in np.unique(ci):
        P -= (W[:, ci == m].sum(axis=1) / k) ** 2
    for deg in ('undirected', 'in', 'out'):
        st, out = guarded(bct.participation_coef, W.copy(), ci.copy(), degree=deg)
        t.c['evaluations'] += 1
        case = {'family': 'large', 'n': n, 'communities': int(ci.max()), 'degree': deg, 'variant': 'participation_coef[%s]' % deg}
        if st != 'ok':
            t.viol('participation_coef', 'raises', case, observed=out)
            continue
        if not orc.close(np.asarray(out, dtype=float), P):
            t.viol('participation_coef', 'definition', case, observed=np.asarray(out)[:8], expected=P[:8])
        for rname, rl in relab.items():
            st2, out2 = guarded(bct.participation_coef, W.copy(), rl.copy(), degree=deg)
            t.c['evaluations'] += 1
            if st2 != 'ok' or not orc.close(np.asarray(out2, dtype=float), np.asarray(out, dtype=float)):
                t.viol('participation_coef', 'label_invariance', dict(case, relabelling=rname), observed=np.asarray(out2)[:8] if st2 == 'ok' else out2,
                       expected=np.asarray(out)[:8], tags={'relabelling': rname})
    for fname, f in (('module_degree_zscore', lambda A, c: bct.module_degree_zscore(A, c)),
                     ('participation_coef_sign', bct.participation_coef_sign), ('diversity_coef_sign', bct.diversity_coef_sign)):
        st, out = guarded(f, W.copy(), ci.copy())
        t.c['evaluations'] += 1
        case = {'family': 'large', 'n': n, 'communities': int(ci.max()), 'variant': fname}
        if st != 'ok':
            continue
        for rname, rl in relab.items():
            st2, out2 = guarded(f, W.copy(), rl.copy())
            t.c['evaluations'] += 1
            if st2 != 'ok' or not same_result(('ok', out), ('ok', out2)):
                t.viol(fname, 'label_invariance', dict(case, relabelling=rname), tags={'relabelling': rname})
    t.c['nontrivial'] += 1
    return t


def work(unit):
    if unit[0] == 'large':
        return work_large()
    if unit[0] == 'etype':
        return dtypes.work_unit(PROPERTY, ETYPE_FUNCS, unit)
    t = Tally(PROPERTY)
    if unit[0] == 'fun':
        _, name, idxs = unit
        kind, directed, n, alpha, stride, _ = FAMILIES[name]
        parts = ss.set_partitions(n)
        funcs = functions_for(kind)
        for idx in idxs:
            W = ss.dir_graph(n, alpha, idx) if directed else ss.und_graph(n, alpha, idx)
            for ci in parts:
                ci = np.array(ci)
                fam = ss.relabellings(ci)
                k = int(ci.max())
                same = np.equal.outer(ci, ci)
                inside = np.any((W != 0) & same & ~np.eye(n, dtype=bool))
                between = np.any((W != 0) & ~same)
                nontriv = 2 <= k < n and inside and between
                for fname, f in funcs:
                    base = result(f, W, fam['identity'])
                    for rname, rl in fam.items():
                        if rname == 'identity':
                            continue
                        t.c['evaluations'] += 1
                        r = result(f, W, rl)
                        if not same_result(base, r):
                            t.viol(fname.split('[')[0], 'label_invariance', {'family': name, 'index': idx, 'W': W,
                                   'ci': ci, 'relabelling': rname, 'relabelled': rl, 'variant': fname},
                                   observed=r[1], expected=base[1],
                                   tags={'order_preserving': bool(np.array_equal(np.argsort(np.argsort(rl, kind='stable'), kind='stable'),
                                                                                 np.argsort(np.argsort(ci, kind='stable'), kind='stable')))})
                if nontriv:
                    t.c['nontrivial'] += 1
                    if idx % 97 == 5 and k == 2:
                        t.sample({'family': name, 'W': W, 'ci': ci}, order=idx)
        return t
    if unit[0] == 'pd':
        _, n, rows = unit
        parts = ss.set_partitions(n)
        for i in rows:
            cx = np.array(parts[i])
            for j, py in enumerate(parts):
                cy = np.array(py)
                case = {'n': n, 'cx': cx, 'cy': cy}
                t.c['evaluations'] += 1
                t.c['nontrivial'] += 1
                base = result(bct.partition_distance, cx, cy)
                if base[0] != 'ok':
                    t.viol('partition_distance', 'raises', case, observed=base)
                    continue
                vin, mi = [float(np.asarray(v)) for v in base[1]]
                rev = result(bct.partition_distance, cy, cx)
                if not same_result(base, rev):
                    t.viol('partition_distance', 'symmetric_in_arguments', case, observed=rev[1], expected=base[1])
                equal = bool(np.array_equal(np.equal.outer(cx, cx), np.equal.outer(cy, cy)))
                single = int(cx.max()) == 1 and int(cy.max()) == 1
                if not (-1e-12 <= vin <= 1 + 1e-12):
                    t.viol('partition_distance', 'VIn_in_unit_interval', case, observed=vin)
                if single:
                    t.c['both_single_block_MI_undefined'] += 1
                    if abs(vin) > 1e-12:
                        t.viol('partition_distance', 'zero_VI_iff_equal', case, observed=vin, expected=0)
                else:
                    if (abs(vin) < 1e-12) != equal:
                        t.viol('partition_distance', 'zero_VI_iff_equal', case, observed=vin, expected=equal)
                    if (abs(mi - 1) < 1e-12) != equal:
                        t.viol('partition_distance', 'unit_MI_iff_equal', case, observed=mi, expected=equal)
                for rname, rx in ss.relabellings(cx).items():
                    # the other side also in another element type than the first (labels of the two vectors are never
                    # comparable: a joint view of them must not go through a common type)
                    for rname2, ry in (('identity', cy), ('tens', cy * 10), ('zero_based', cy - 1),
                                       ('float', cy.astype(float) + 0.5), ('uint64', cy.astype(np.uint64))):
                        r = result(bct.partition_distance, rx, ry)
                        t.c['evaluations'] += 1
                        if not same_result(base, r):
                            t.viol('partition_distance', 'label_invariance', dict(case, rx=rx, ry=ry), observed=r[1],
                                   expected=base[1], tags={'relabelling': rname})
        return t
    if unit[0] == 'agree':
        parts = [np.array(p) for p in ss.set_partitions(4)]
        for combo in list(itertools.product(parts, repeat=2)) + list(itertools.combinations(parts, 3))[::3]:
            cis = np.array(combo).T
            t.c['evaluations'] += 1
            t.c['nontrivial'] += 1
            base = result(bct.agreement, cis)
            exp = sum(np.equal.outer(c, c).astype(float) for c in combo)
            np.fill_diagonal(exp, 0)
            case = {'partitions': cis}
            if base[0] != 'ok':
                t.viol('agreement', 'raises', case, observed=base)
                continue
            if not orc.close(np.asarray(base[1], dtype=float), exp):
                t.viol('agreement', 'counts_co_assignments', case, observed=base[1], expected=exp)
            # the buffered evaluation (buffsz below / equal to / above the number of partitions) is the same function
            for bs in (1, 2, 3):
                rb = result(lambda c, bs=bs: bct.agreement(c, buffsz=bs), cis)
                if not same_result(base, rb):
                    t.viol('agreement', 'counts_co_assignments', dict(case, buffsz=bs), observed=rb[1], expected=exp,
                           tags={'buffsz': bs})
            for variant, tr in (('tens', lambda c: c * 10), ('zero_based', lambda c: c - 1),
                                ('reversed', lambda c: c.max() + 1 - c), ('large', lambda c: c + 10 ** 6),
                                ('int8_extremes', lambda c: ss.relabellings(c)['int8_extremes']),
                                ('int64_extremes', lambda c: ss.relabellings(c)['int64_extremes']),
                                ('float_close', lambda c: 1.0 + c * 1e-9)):
                r = result(bct.agreement, np.array([tr(c) for c in combo]).T)
                if not same_result(base, r):
                    t.viol('agreement', 'label_invariance', dict(case, relabelling=variant), observed=r[1],
                           expected=base[1], tags={'relabelling': variant})
            wts = np.arange(1.0, len(combo) + 1)
            bw = result(bct.agreement_weighted, np.array(combo), wts)
            expw = sum(w * np.equal.outer(c, c).astype(float) for w, c in zip(wts / wts.sum(), combo))
            if bw[0] != 'ok' or not orc.close(np.asarray(bw[1], dtype=float), expw):
                t.viol('agreement_weighted', 'weighted_co_assignment', case, observed=bw[1], expected=expw)
            rw = result(bct.agreement_weighted, np.array([c * 10 for c in combo]), wts)
            if not same_result(bw, rw):
                t.viol('agreement_weighted', 'label_invariance', case, observed=rw[1], expected=bw[1])
        return t
    # ci2ls / ls2ci
    n = unit[1]
    for p in ss.set_partitions(n):
        ci = np.array(p)
        for rname, rl in ss.relabellings(ci).items():
            if rname in ('float',):
                continue
            t.c['evaluations'] += 1
            t.c['nontrivial'] += 1
            case = {'ci': rl, 'relabelling': rname}
            st, ls = guarded(bct.ci2ls, rl.copy())
            if st != 'ok':
                t.viol('ci2ls', 'raises', case, observed=ls)
                continue
            st, back = guarded(bct.ls2ci, ls)
            if st != 'ok':
                t.viol('ls2ci', 'raises', case, observed=back)
                continue
            back = np.asarray(back)
            if back.shape != ci.shape or not np.array_equal(np.equal.outer(back, back), np.equal.outer(ci, ci)):
                t.viol('ci2ls', 'round_trip_up_to_renaming', case, observed=back, expected=ci)
            st, back0 = guarded(bct.ls2ci, ls, zeroindexed=True)
            if st != 'ok':
                t.viol('ls2ci', 'raises', dict(case, zeroindexed=True), observed=back0)
            else:
                back0 = np.asarray(back0)
                if back0.shape != ci.shape or not np.array_equal(np.equal.outer(back0, back0), np.equal.outer(ci, ci)) \
                        or (back0.size and (back0.min() != 0 or not np.array_equal(back0 + 1, back))):
                    t.viol('ls2ci', 'zero_indexed_is_the_same_partition', dict(case, zeroindexed=True), observed=back0, expected=back)
            for zi in (False, True):
                st, ls0 = guarded(bct.ci2ls, rl.copy(), zeroindexed=zi)
                if st == 'ok':
                    m0 = sorted(sorted(int(v) - (0 if zi else 0) for v in grp) for grp in ls0)
                    if m0 != sorted(sorted(int(v) for v in np.where(ci == c)[0]) for c in np.unique(ci)):
                        t.viol('ci2ls', 'lists_are_the_blocks', dict(case, zeroindexed=zi), observed=m0)
            members = sorted(sorted(int(v) for v in grp) for grp in ls)
            expm = sorted(sorted(int(v) for v in np.where(ci == c)[0]) for c in np.unique(ci))
            if members != expm:
                t.viol('ci2ls', 'lists_are_the_blocks', case, observed=members, expected=expm)
    return t


def replay(rec):
    if rec['case'].get('family') == 'large':
        return work_large()
    if rec['case'].get('family') == 'element_types':
        return dtypes.replay(PROPERTY, ETYPE_FUNCS, rec['case'])
    t = Tally(PROPERTY)
    c = rec['case']
    fn = rec['function']
    if 'W' in c and 'relabelled' in c:
        W = np.array(c['W'], dtype=float)
        kind = FAMILIES[c['family']][0]
        f = dict(functions_for(kind))[c['variant']]
        base = result(f, W, np.array(c['ci']))
        r = result(f, W, np.array(c['relabelled']))
        if not same_result(base, r):
            t.viol(fn, 'label_invariance', c, observed=r[1], expected=base[1])
    else:
        t.note('replay of this case family re-runs the whole unit')
        for u in (('pd', len(c.get('cx', [0] * 4)), list(range(len(ss.set_partitions(len(c.get('cx', [0] * 4))))))),) \
                if 'cx' in c else (('agree', 4, None), ('ls', 4, None)):
            t.merge(work(u))
    return t
