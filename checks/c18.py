"""C18 - random-walk and spectral measures satisfy their defining equations.

Engine B: every connected small graph / strongly connected digraph for the random-walk
measures, every undirected graph n<=6 (all degenerate spectra up to 6 nodes) plus a list of
larger highly symmetric graphs for the spectral ones; residuals of the defining equations.
"""
import itertools

import numpy as np
import scipy.linalg

import bct
from bctmc import smallscope as ss
from bctmc import oracles as orc
from bctmc import named
from bctmc.runner import guarded
from bctmc.tally import Tally
from bctmc import dtypes

PROPERTY = 'C18'
RULE = ('pagerank on a 1001-node path and lollipop (beyond 1000 nodes), d in {0.85, 0.99}, uniform / skewed falff, against its equation; element types: every routine also on int64 / int32 / uint8 / bool copies of all 3-node digraphs over {0,1} and {0,1,2}, 4-node graphs over {0,1,2}, 5-node binary graphs (same values as for float64; integers must not raise, a boolean matrix may be rejected with TypeError); random-walk measures: every connected undirected graph over weights {1,2}, {0.5,1} and the nearly decomposable {0.002,1} (n<=5) on n<=4, binary n=5, every '
        'strongly connected binary digraph n<=4 (thorough: weights {1,2} and {0.5,1,2} on n=5); pagerank additionally x d in '
        '{0.5,0.85} x falff in {None, non-uniform}; spectral measures and findwalks: every undirected graph n<=6 (findwalks also '
        'every digraph n<=4) plus C8, K4,4, Petersen, 2xK4, 3-cube, K3,3+isolated and the structured 7-10 node family of bctmc/named.py; every network on <= 4 nodes also with self-connections; non-trivial = graph with a repeated '
        'adjacency eigenvalue (spectral) / with unequal node strengths (random walk)')
ASSUMPTIONS = ['numpy/scipy linear algebra as reference (expm, matrix_power, eigvalsh); residual tolerance 1e-8',
               'mean first passage time is judged off the diagonal (the routine reports 0 on the diagonal)',
               'random-walk measures are judged on (strongly) connected input only']

RW = {
    'rw_und3_12': (False, 3, (0, 1, 2), 'q'), 'rw_und4_12': (False, 4, (0, 1, 2), 'q'),
    'rw_und4_half': (False, 4, (0, 0.5, 1), 'q'), 'rw_und5_bin': (False, 5, (0, 1), 'q'),
    'rw_dir3_bin': (True, 3, (0, 1), 'q'), 'rw_dir4_bin': (True, 4, (0, 1), 'q'),
    'rw_dir3_half': (True, 3, (0, 0.5, 2), 'q'),
    'rw_und4_weak': (False, 4, (0, 0.002, 1), 'q'), 'rw_und5_weak': (False, 5, (0, 0.002, 1), 'q'),
    'rw_dir3_weak': (True, 3, (0, 0.002, 1), 'q'),
    'rw_und5_12': (False, 5, (0, 1, 2), 't'), 'rw_und5_half': (False, 5, (0, 0.5, 1), 't'),
}
SP = {'sp_und2': 2, 'sp_und3': 3, 'sp_und4': 4, 'sp_und5': 5, 'sp_und6': 6}


def named_graphs():
    g = {}

    def und(n, edges):
        A = np.zeros((n, n))
        for a, b in edges:
            A[a, b] = A[b, a] = 1
        return A
    g['C8'] = und(8, [(i, (i + 1) % 8) for i in range(8)])
    g['K44'] = und(8, [(i, j) for i in range(4) for j in range(4, 8)])
    g['petersen'] = und(10, [(i, (i + 1) % 5) for i in range(5)] + [(i, i + 5) for i in range(5)] +
                        [(5 + i, 5 + (i + 2) % 5) for i in range(5)])
    g['2xK4'] = und(8, [(i, j) for i in range(4) for j in range(i + 1, 4)] +
                    [(i, j) for i in range(4, 8) for j in range(i + 1, 8)])
    g['cube'] = und(8, [(i, j) for i in range(8) for j in range(i + 1, 8) if bin(i ^ j).count('1') == 1])
    g['K33_iso'] = und(7, [(i, j) for i in range(3) for j in range(3, 6)])
    g['C6'] = und(6, [(i, (i + 1) % 6) for i in range(6)])
    g['star7'] = und(7, [(0, i) for i in range(1, 7)])
    return g


def _conn(A, d):
    return len(A) > 1 and (ss.strongly_connected(A) if d else ss.is_connected(A))


ETYPE_FUNCS = [
    ('mean_first_passage_time', bct.mean_first_passage_time, _conn),
    ('diffusion_efficiency', bct.diffusion_efficiency, _conn),
    ('pagerank_centrality[.85]', lambda A: bct.pagerank_centrality(A, 0.85), None),
    ('pagerank_centrality[.5,falff]', lambda A: bct.pagerank_centrality(A, 0.5, falff=np.arange(1.0, len(A) + 1)), None),
    ('subgraph_centrality', bct.subgraph_centrality, lambda A, d: not d),
    ('eigenvector_centrality_und', bct.eigenvector_centrality_und, lambda A, d: (not d) and _conn(A, d)),
    ('findwalks', bct.findwalks, None),
]


def plan(ctx):
    units = []
    for name, (directed, n, alpha, tier) in RW.items():
        if tier == 't' and not ctx.thorough:
            continue
        tot = ss.dir_count(n, alpha) if directed else ss.und_count(n, alpha)
        for (a, b) in ss.ranges(tot, max(1, min(256, tot // 100))):
            units.append(('rw', name, a, b))
    for name, n in SP.items():
        tot = ss.und_count(n, (0, 1))
        for (a, b) in ss.ranges(tot, 128 if n >= 6 else (8 if n == 5 else 1)):
            units.append(('sp', name, a, b))
    for n in (2, 3, 4):
        tot = ss.dir_count(n, (0, 1))
        for (a, b) in ss.ranges(tot, 16 if n == 4 else 1):
            units.append(('fw_dir', n, a, b))
    units.append(('named', None, 0, 0))
    units.append(('big_pagerank', 0, 0, 0))
    units += dtypes.units(dtypes.STD_FAMILIES)
    return units


def check_rw(t, A, case, directed):
    n = len(A)
    s_out = A.sum(axis=1)
    P = A / s_out[:, None]
    off = orc.offdiag(n)
    st, M = guarded(bct.mean_first_passage_time, A.copy())
    t.c['evaluations'] += 1
    if st != 'ok':
        t.viol('mean_first_passage_time', 'raises', case, observed=M)
    else:
        M = np.asarray(M, dtype=float)
        worst = 0.0
        for j in range(n):
            for i in range(n):
                if i == j:
                    continue
                rhs = 1 + sum(P[i, k] * M[k, j] for k in range(n) if k != j)
                worst = max(worst, abs(M[i, j] - rhs))
        if M.shape != (n, n) or not np.all(np.isfinite(M[off])) or worst > 1e-8:
            t.viol('mean_first_passage_time', 'first_passage_equation', case, observed=M, expected='residual %g' % worst)
        else:
            st2, out = guarded(bct.diffusion_efficiency, A.copy())
            t.c['evaluations'] += 1
            if st2 != 'ok':
                t.viol('diffusion_efficiency', 'raises', case, observed=out)
            else:
                ge, ed = out
                exp = np.zeros((n, n))
                exp[off] = 1.0 / M[off]
                if not orc.close(ed, exp):
                    t.viol('diffusion_efficiency', 'elementwise_inverse', case, observed=ed, expected=exp)
                if not orc.close(ge, exp.sum() / (n * n - n)):
                    t.viol('diffusion_efficiency', 'mean', case, observed=ge, expected=exp.sum() / (n * n - n))
    deg_in = A.sum(axis=0)
    for d in (0.5, 0.85):
        for fname, falff in (('uniform', None), ('ramp', np.arange(1.0, n + 1))):
            c = dict(case, d=d, falff=fname)
            st, r = guarded(bct.pagerank_centrality, A.copy(), d, falff=None if falff is None else falff.copy())
            t.c['evaluations'] += 1
            if st != 'ok':
                t.viol('pagerank_centrality', 'raises', c, observed=r)
                continue
            r = np.asarray(r, dtype=float).ravel()
            f = np.ones(n) / n if falff is None else falff / falff.sum()
            rhs = d * (A / deg_in[None, :]).dot(r) + (1 - d) * f
            if r.shape != (n,) or np.any(r <= 0) or abs(r.sum() - 1) > 1e-9:
                t.viol('pagerank_centrality', 'positive_and_sums_to_one', c, observed=r)
            elif np.max(np.abs(r - rhs)) > 1e-8:
                t.viol('pagerank_centrality', 'pagerank_equation', c, observed=r, expected=rhs)
    return len(set(np.round(A.sum(axis=0) + A.sum(axis=1), 9).tolist())) > 1


def check_spectral(t, A, case):
    n = len(A)
    lam = np.linalg.eigvalsh(A)
    repeated = bool(np.any(np.abs(np.diff(np.sort(lam))) < 1e-9))
    st, cs = guarded(bct.subgraph_centrality, A.copy())
    t.c['evaluations'] += 1
    exp = np.diag(scipy.linalg.expm(A))
    if st != 'ok':
        t.viol('subgraph_centrality', 'raises', case, observed=cs)
    elif not np.allclose(np.asarray(cs, dtype=float), exp, rtol=1e-8, atol=1e-8):
        t.viol('subgraph_centrality', 'diagonal_of_matrix_exponential', case, observed=cs, expected=exp,
               tags={'repeated_eigenvalue': repeated})
    st, v = guarded(bct.eigenvector_centrality_und, A.copy())
    t.c['evaluations'] += 1
    if st != 'ok':
        t.viol('eigenvector_centrality_und', 'raises', case, observed=v)
    else:
        v = np.asarray(v)
        if np.iscomplexobj(v):
            v = np.real_if_close(v)
        v = np.asarray(v, dtype=float).ravel()
        lmax = float(lam.max())
        if v.shape != (n,) or np.any(v < 0) or abs(np.linalg.norm(v) - 1) > 1e-8:
            t.viol('eigenvector_centrality_und', 'non_negative_unit_vector', case, observed=v)
        elif np.linalg.norm(A.dot(v) - lmax * v) > 1e-8:
            t.viol('eigenvector_centrality_und', 'eigen_equation', case, observed=v, expected=lmax,
                   tags={'repeated_eigenvalue': repeated})
    return repeated


def check_findwalks(t, A, case):
    n = len(A)
    st, out = guarded(bct.findwalks, A.copy())
    t.c['evaluations'] += 1
    if st != 'ok':
        t.viol('findwalks', 'raises', case, observed=out)
        return
    Wq, twalk, wlq = out
    Wq = np.asarray(Wq, dtype=float)
    B = (A != 0).astype(float)
    for q in range(1, n):
        if Wq.ndim != 3 or Wq.shape[2] <= q or not np.array_equal(Wq[:, :, q], np.linalg.matrix_power(B, q)):
            t.viol('findwalks', 'walk_counts_are_matrix_powers', case, observed=Wq[:, :, q] if Wq.ndim == 3 and Wq.shape[2] > q else Wq.shape,
                   expected=np.linalg.matrix_power(B, q), tags={'length': q})
            return
    if twalk != Wq.sum():
        t.viol('findwalks', 'total_walks', case, observed=twalk, expected=Wq.sum())
    if not np.array_equal(np.asarray(wlq, dtype=float), Wq.sum(axis=0).sum(axis=0)):
        t.viol('findwalks', 'walk_length_distribution', case, observed=wlq, expected=Wq.sum(axis=0).sum(axis=0))


def work_big_pagerank():
    """more than 1000 nodes (the docstring's own size remark): a 1001-node path and lollipop, d in {0.85, 0.99}, uniform
    and skewed falff; the defining equation is checked directly."""
    t = Tally(PROPERTY)
    n = 1001
    P = np.zeros((n, n))
    for i in range(n - 1):
        P[i, i + 1] = P[i + 1, i] = 1
    L = P.copy()
    L[:30, :30] = 1 - np.eye(30)
    for label, A in (('path1001', P), ('lollipop1001', L)):
        deg = A.sum(axis=0)
        for d in (0.85, 0.99):
            for fname, fa in (('uniform', None), ('skewed', np.arange(1.0, n + 1))):
                st, r = guarded(bct.pagerank_centrality, A.copy(), d, falff=None if fa is None else fa.copy(), _timeout=600)
                t.c['evaluations'] += 1
                case = {'family': 'big_pagerank', 'graph': label, 'd': d, 'falff': fname}
                if st != 'ok':
                    t.viol('pagerank_centrality', 'raises', case, observed=r)
                    continue
                r = np.asarray(r, dtype=float).ravel()
                f = np.ones(n) / n if fa is None else fa / fa.sum()
                res = np.abs(r - (d * A.dot(r / deg) + (1 - d) * f)).max() / np.abs(r).max()
                if r.shape != (n,) or np.any(r <= 0) or abs(r.sum() - 1) > 1e-9 or res > 1e-8:
                    t.viol('pagerank_centrality', 'pagerank_equation', case, observed=float(res), expected=0)
    t.c['nontrivial'] += 1
    return t


def work(unit):
    if unit[0] == 'big_pagerank':
        return work_big_pagerank()
    if unit[0] == 'etype':
        return dtypes.work_unit(PROPERTY, ETYPE_FUNCS, unit)
    kind, name, a, b = unit
    t = Tally(PROPERTY)
    if kind == 'rw':
        directed, n, alpha, _ = RW[name]
        for idx in range(a, b):
            A = ss.dir_graph(n, alpha, idx) if directed else ss.und_graph(n, alpha, idx)
            if not (ss.strongly_connected(A) if directed else ss.is_connected(A)) or n < 2:
                continue
            case = {'family': name, 'index': idx, 'A': A}
            t.c['graphs'] += 1
            if check_rw(t, A, case, directed):
                t.c['nontrivial'] += 1
                if idx % 71 == 3:
                    t.sample(case, order=-n * 10 ** 7 + idx)
            if n <= 4:
                # the same network with self-connections (a walker may stay where it is)
                Ad = A.copy()
                np.fill_diagonal(Ad, [1.0, 0.0, 2.0, 0.5][:n])
                t.c['graphs'] += 1
                check_rw(t, Ad, dict(case, A=Ad, variant='self_connections'), directed)
    elif kind == 'sp':
        n = SP[name]
        for idx in range(a, b):
            A = ss.und_graph(n, (0, 1), idx)
            case = {'family': name, 'index': idx, 'A': A}
            t.c['graphs'] += 1
            if check_spectral(t, A, case):
                t.c['nontrivial'] += 1
                if idx % 499 == 7:
                    t.sample(case, order=-n * 10 ** 7 + idx)
            if n <= 5:
                check_findwalks(t, A, case)
            if n <= 4:
                Ad = A.copy()
                np.fill_diagonal(Ad, [1.0, 0.0, 1.0, 1.0][:n])
                cd = dict(case, A=Ad, variant='self_connections')
                check_spectral(t, Ad, cd)
                check_findwalks(t, Ad, cd)
    elif kind == 'fw_dir':
        for idx in range(a, b):
            A = ss.dir_graph(name, (0, 1), idx)
            check_findwalks(t, A, {'family': 'fw_dir%d' % name, 'index': idx, 'A': A})
            t.c['graphs'] += 1
    else:
        extra = dict(named.family('bin_und'))
        extra.update({'w:' + k: v for k, v in named.family('len_und')})
        for gname, A in extra.items():
            case = {'family': 'named', 'name': gname, 'A': A}
            t.c['graphs'] += 1
            if not gname.startswith('w:'):
                if check_spectral(t, A, case):
                    t.c['nontrivial'] += 1
                if len(A) <= 8:
                    check_findwalks(t, A, case)
            if ss.is_connected(A):
                check_rw(t, A, case, False)
        for gname, A in named.family('bin_dir'):
            case = {'family': 'named', 'name': gname, 'A': A}
            if len(A) <= 8:
                check_findwalks(t, A, case)
            if ss.strongly_connected(A):
                t.c['graphs'] += 1
                check_rw(t, A, case, True)
        for gname, A in named_graphs().items():
            case = {'family': 'named', 'name': gname, 'A': A}
            t.c['graphs'] += 1
            if check_spectral(t, A, case):
                t.c['nontrivial'] += 1
            check_findwalks(t, A, case)
            if ss.is_connected(A):
                check_rw(t, A, case, False)
    return t


def replay(rec):
    if rec['case'].get('family') == 'big_pagerank':
        return work_big_pagerank()
    if rec['case'].get('family') == 'element_types':
        return dtypes.replay(PROPERTY, ETYPE_FUNCS, rec['case'])
    t = Tally(PROPERTY)
    c = rec['case']
    A = np.array(c['A'], dtype=float)
    base = {k: c[k] for k in c if k in ('family', 'index', 'A', 'name')}
    fn = rec['function']
    if fn in ('mean_first_passage_time', 'diffusion_efficiency', 'pagerank_centrality'):
        check_rw(t, A, base, not np.array_equal(A, A.T))
    elif fn == 'findwalks':
        check_findwalks(t, A, base)
    else:
        check_spectral(t, A, base)
    return t
