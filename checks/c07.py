"""C07 - modularity optimisers never return a partition worse than their start.

Engine A (rngmc): the explorations of C02 (ALL visiting orders at every sweep) for the
deterministic-gain optimisers; oracle Qref(returned) >= Qref(start); hierarchical q strictly
increasing; second stage from non-initial states: every distinct partition returned in the
first stage is fed back as the start and explored over all orders again; role-based state
invariant (incremental node-to-module sums equal sums recomputed from the labels).
"""
import numpy as np

import bct
from bctmc import louvain as lv
from bctmc import smallscope as ss
from bctmc.tally import Tally
from checks import c02

PROPERTY = 'C07'
RULE = ('same catalogue as C02 restricted to the deterministic-gain optimisers (community_louvain, modularity_louvain_und/'
        '_dir/_und_sign, modularity_finetune_und/_dir/_und_sign), plus modularity_finetune_und_sign on three 4-node networks dominated by negative weights from every one of the 15 start partitions under each of the five objective types; ALL visiting orders at every sweep; second stage: each '
        'distinct first-stage output fed back as ci (routines that accept ci) over all orders; non-trivial = configuration '
        'with >= 2 distinct reachable outcomes')
ASSUMPTIONS = ['reference modularity from the definition (bctmc/louvain.py); tolerance 1e-10 as in the property',
               'state merging as in C01']

OPTIMISERS = ('community_louvain', 'modularity_louvain_und', 'modularity_louvain_dir', 'modularity_louvain_und_sign',
              'modularity_finetune_und', 'modularity_finetune_dir', 'modularity_finetune_und_sign')
TOL = 1e-10
THOROUGH = [False]


# signed 4-node networks dominated by negative weights: under these a start partition can already be good for one
# objective and poor for another, so "not worse than the start" separates the five objective types
HEAVY_NEG = (('hneg_a', [[0, -2, -2, -2], [-2, 0, -2, 1], [-2, -2, 0, 1], [-2, 1, 1, 0]]),
             ('hneg_b', [[0, 1, -2, -1], [1, 0, -1, -2], [-2, -1, 0, 1], [-1, -2, 1, 0]]),
             ('hneg_c', [[0, -2, 1, 0], [-2, 0, -2, 1], [1, -2, 0, -2], [0, 1, -2, 0]]))


def catalogue(thorough):
    cfgs = [c for c in c02.catalogue(thorough) if c['fn'] in OPTIMISERS]
    for tag, W in HEAVY_NEG:
        for qt in c02.QTYPES:
            for ci in ss.set_partitions(4):     # every start partition x every objective type
                cfgs.append({'fn': 'modularity_finetune_und_sign', 'tag': tag, 'W': np.array(W, dtype=float),
                             'kw': {'gamma': 1, 'qtype': qt, 'ci': [int(x) for x in ci]}})
    return cfgs


def plan(ctx):
    THOROUGH[0] = ctx.thorough
    cfgs = catalogue(ctx.thorough)
    big = [c for c in cfgs if len(c['W']) >= 5]
    small = [c for c in cfgs if len(c['W']) < 5]
    return [[c] for c in big] + [small[k:k + 5] for k in range(0, len(small), 5)]


def unit_cost(unit):
    return max(len(c['W']) for c in unit)


def asym(cfg):
    W = np.asarray(cfg['W'])
    return bool(not np.array_equal(W, W.T))


def judge(t, cfg, status, value, case_fn):
    fn = cfg['fn']
    if status != 'ok':
        t.viol(fn, 'raises' if status == 'exc' else 'does_not_terminate', case_fn(), observed=value)
        return True
    ci, q = value
    n = len(cfg['W'])
    start = lv.start_partition(cfg)
    q_start = lv.q_ref(cfg, start)
    if cfg['kw'].get('hierarchy'):
        ci = np.asarray(ci)
        if ci.ndim != 2 or len(ci) == 0:
            return False        # C02 judges the shape
        qs = [lv.q_ref(cfg, list(level)) for level in ci]
        bad = False
        if qs[0] < q_start - TOL:
            t.viol(fn, 'not_worse_than_start', case_fn(), observed=qs[0], expected=q_start, detail={'ci': ci},
                   tags={'asymmetric_input': asym(cfg)})
            bad = True
        for a, b in zip(qs[:-1], qs[1:]):
            if not b > a:
                t.viol(fn, 'hierarchy_strictly_increasing', case_fn(), observed=qs, detail={'ci': ci},
                       tags={'asymmetric_input': asym(cfg)})
                bad = True
                break
        return bad
    if lv.valid_partition(ci, n):
        return False            # C02 judges validity
    q_ret = lv.q_ref(cfg, list(ci))
    if q_ret < q_start - TOL:
        t.viol(fn, 'not_worse_than_start', case_fn(), observed=q_ret, expected=q_start,
               detail={'ci': ci, 'start': start}, tags={'second_stage': bool(cfg.get('second_stage')),
                                                        'asymmetric_input': asym(cfg)})
        return True
    return False


def recompute_sums(W, labels, nmod):
    out = np.zeros((len(W), nmod))
    for m in range(nmod):
        out[:, m] = W[:, np.asarray(labels) == m + 1].sum(axis=1)
    return out


def invariant(t, cfg, frames, case_fn):
    """At a sweep-start draw: node-to-module sums agree with the label vector."""
    fn = cfg['fn']
    f = lv_find(frames, fn)
    if f is None:
        t.c['state_invariant_skipped'] += 1
        return
    L = f.f_locals
    try:
        if fn == 'community_louvain':
            Hnm, Mb, B = L['Hnm'], L['Mb'], L['B']
            if isinstance(B, str):
                return
            exp = recompute_sums(np.asarray(B, dtype=float), Mb, Hnm.shape[1])
            pairs = [('Hnm', Hnm, exp)]
        elif fn in ('modularity_finetune_und',):
            pairs = [('knm', L['knm'], recompute_sums(np.asarray(L['W'], dtype=float), L['ci'], L['knm'].shape[1]))]
        elif fn == 'modularity_finetune_dir':
            W = np.asarray(L['W'], dtype=float)
            pairs = [('knm_o', L['knm_o'], recompute_sums(W, L['ci'], L['knm_o'].shape[1])),
                     ('knm_i', L['knm_i'], recompute_sums(W.T, L['ci'], L['knm_i'].shape[1]))]
        elif fn == 'modularity_louvain_dir':
            W = np.asarray(L['W'], dtype=float)
            pairs = [('knm_o', L['knm_o'], recompute_sums(W, L['m'], L['knm_o'].shape[1])),
                     ('knm_i', L['knm_i'], recompute_sums(W.T, L['m'], L['knm_i'].shape[1]))]
        elif fn == 'modularity_louvain_und':
            pairs = [('knm', L['knm'], recompute_sums(np.asarray(L['W'], dtype=float), L['m'], L['knm'].shape[1]))]
        elif fn == 'modularity_finetune_und_sign':
            pairs = [('Knm0', L['Knm0'], recompute_sums(np.asarray(L['W0'], dtype=float), L['ci'], L['Knm0'].shape[1])),
                     ('Knm1', L['Knm1'], recompute_sums(np.asarray(L['W1'], dtype=float), L['ci'], L['Knm1'].shape[1]))]
        elif fn == 'modularity_louvain_und_sign':
            pairs = [('knm0', L['knm0'], recompute_sums(np.asarray(L['W0'], dtype=float), L['m'], L['knm0'].shape[1])),
                     ('knm1', L['knm1'], recompute_sums(np.asarray(L['W1'], dtype=float), L['m'], L['knm1'].shape[1]))]
        else:
            return
    except (KeyError, AttributeError, IndexError, ValueError):
        t.c['state_invariant_skipped'] += 1
        return
    t.c['state_invariants_checked'] += 1
    for name, got, exp in pairs:
        got = np.asarray(got, dtype=float)
        if got.shape != exp.shape or not np.allclose(got, exp, atol=1e-9):
            t.viol(fn, 'state:node_to_module_sums_match_labels', case_fn(), observed=got, expected=exp,
                   tags={'which': name, 'asymmetric_input': asym(cfg)})
            return


def lv_find(frames, name):
    for f in frames:
        if f.f_code.co_name == name:
            return f
    return None


def work(unit):
    t = Tally(PROPERTY)
    cap = 2000000 if THOROUGH[0] else 200000
    for cfg in unit:
        outs = []

        def collect(value, outs=outs):
            ci = value[0]
            ci = np.asarray(ci)
            if ci.ndim == 1:
                outs.append([int(x) for x in ci])
        t.merge(lv.explore_config(PROPERTY, cfg, judge, max_executions=cap, invariant=invariant, collect=collect))
        p = lv.START_PARAM.get(cfg['fn'])
        if p == 'ci' and not cfg['kw'].get('hierarchy'):
            seen = set()
            for ci in outs:
                key = tuple(ci)
                if key in seen or lv.valid_partition(ci, len(cfg['W'])):
                    continue
                seen.add(key)
                cfg2 = {'fn': cfg['fn'], 'tag': cfg['tag'], 'W': cfg['W'], 'kw': dict(cfg['kw'], ci=list(ci)),
                        'second_stage': True}
                t2 = lv.explore_config(PROPERTY, cfg2, judge, max_executions=cap, invariant=invariant)
                t2.c['second_stage_configs'] += 1
                t2.c['configs'] -= 1
                t.merge(t2)
    return t


def coverage(ctx, total):
    c = total.c
    return {'states': int(c['states']), 'transitions': int(c['transitions']),
            'traces_validated_against_impl': int(c['executions'])}


def replay(rec):
    return lv.replay_case(PROPERTY, rec, judge, invariant)
