"""C04 - graph measures are equivariant under renumbering of nodes.

Engine B: each measure is evaluated once on EVERY labelled input of its class at n=4 and the
table is closed under all 24 renumberings by lookup, i.e. all (graph, permutation) pairs are
compared (98 304 pairs per directed measure) at the cost of one evaluation per graph.
"""
import numpy as np

import bct
from bctmc import smallscope as ss
from bctmc import oracles as orc
from bctmc import trees
from bctmc.runner import guarded
from bctmc.tally import Tally

PROPERTY = 'C04'
RULE = ('every free tree on 8 nodes under the renumberings of bctmc/trees.py for every measure of the directed and undirected tables; for each deterministic measure: all labelled inputs of its class on 4 nodes (binary digraphs 4096, binary graphs 64, '
        'weights {1,2} 729, signed {-1,0,1} 729; weights {.4,.3,.1+.2} (two values one rounding error apart; thorough also decimal {.1,.2,.3,.4}) on 4-node graphs / 3-node digraphs for the path-based weighted measures; lengths {1,2} on all 59 049 5-node graphs x the 4 adjacent transpositions (which generate every renumbering; the family is closed under renumbering) for betweenness_wei and edge_betweenness_wei (thorough: also distance_wei, local efficiency_wei); with every set partition where a community vector is an argument) x all 24 '
        'renumberings (thorough: binary graphs on 5 nodes x 120 renumberings; thorough also one irregular 260-node network per class under reversal and a 97-step rotation for every measure except findwalks, erange, resource_efficiency_bin); non-trivial = (graph, renumbering) pairs where '
        'the renumbered graph differs from the graph')
ASSUMPTIONS = ['outputs documented as order-dependent choices are excluded: Pmat/hops of distance_wei_floyd and B of '
               'distance_wei under ties, navigation paths under equal distances; heuristics with index tie-breaking '
               '(modularity_und/_dir, Louvain) are not measures in the sense of this property',
               'eigenvector_centrality_und, mean_first_passage_time and diffusion_efficiency are compared on (strongly) '
               'connected graphs only (unique leading eigenvector / ergodic walk)',
               'backbone_wu is not included: its spanning tree is an index-dependent choice under tied weights',
               'tolerance 1e-9, NaN-equal; raising the same exception type on both sides counts as equal']


def offd(M):
    M = np.array(M, dtype=float)
    np.fill_diagonal(M, 0)
    return M


def comp_matrix(A):
    c, _ = bct.get_components(A)
    return np.equal.outer(c, c).astype(float)


DIR = {
    'degrees_dir': (bct.degrees_dir, 'vvv'), 'strengths_dir': (bct.strengths_dir, 'v'),
    'density_dir': (bct.density_dir, 'sss'), 'clustering_coef_bd': (bct.clustering_coef_bd, 'v'),
    'transitivity_bd': (bct.transitivity_bd, 's'), 'clustering_coef_wd': (bct.clustering_coef_wd, 'v'),
    'transitivity_wd': (bct.transitivity_wd, 's'), 'distance_bin': (bct.distance_bin, 'm'),
    'distance_wei[D]': (lambda A: bct.distance_wei(A)[0], 'm'),
    'distance_wei_floyd[SPL]': (lambda A: bct.distance_wei_floyd(A)[0], 'm'),
    'breadthdist': (lambda A: tuple(offd(x) for x in bct.breadthdist(A)), 'mm'),
    'reachdist': (lambda A: tuple(offd(x) for x in bct.reachdist(A)), 'mm'),
    'betweenness_bin': (bct.betweenness_bin, 'v'), 'betweenness_wei': (bct.betweenness_wei, 'v'),
    'edge_betweenness_bin': (bct.edge_betweenness_bin, 'mv'), 'edge_betweenness_wei': (bct.edge_betweenness_wei, 'mv'),
    'efficiency_bin': (bct.efficiency_bin, 's'), 'efficiency_bin[local]': (lambda A: bct.efficiency_bin(A, local=True), 'v'),
    'efficiency_wei': (bct.efficiency_wei, 's'), 'efficiency_wei[local]': (lambda A: bct.efficiency_wei(A, local=True), 'v'),
    'kcore_bd[2]': (lambda A: bct.kcore_bd(A, 2), 'ms'), 'kcore_bd[3]': (lambda A: bct.kcore_bd(A, 3), 'ms'),
    'kcoreness_centrality_bd': (bct.kcoreness_centrality_bd, 'vs'),
    'rich_club_bd': (lambda A: bct.rich_club_bd(A, klevel=6), 'sss'),
    'assortativity_bin[1]': (lambda A: bct.assortativity_bin(A, 1), 's'),
    'assortativity_bin[2]': (lambda A: bct.assortativity_bin(A, 2), 's'),
    'assortativity_bin[3]': (lambda A: bct.assortativity_bin(A, 3), 's'),
    'assortativity_bin[4]': (lambda A: bct.assortativity_bin(A, 4), 's'),
    'assortativity_wei[1]': (lambda A: bct.assortativity_wei(A, 1), 's'),
    'assortativity_wei[4]': (lambda A: bct.assortativity_wei(A, 4), 's'),
    'pagerank_centrality': (lambda A: bct.pagerank_centrality(A, 0.85), 'v'),
    'matching_ind': (bct.matching_ind, 'mmm'), 'edge_nei_overlap_bd': (lambda A: bct.edge_nei_overlap_bd(A)[0], 'm'),
    'flow_coef_bd': (bct.flow_coef_bd, 'vsv'),
    'findwalks': (lambda A: tuple(bct.findwalks(A)[0][:, :, q] for q in range(1, 4)) + tuple(bct.findwalks(A)[1:]), 'mmmss'),
    'jdegree': (bct.jdegree, 'ssss'),
    'gtom[1]': (lambda A: bct.gtom(A, 1), 'm'), 'gtom[2]': (lambda A: bct.gtom(A, 2), 'm'),
    'gtom[3]': (lambda A: bct.gtom(A, 3), 'm'), 'gtom[4]': (lambda A: bct.gtom(A, 4), 'm'),
    'gtom[6]': (lambda A: bct.gtom(A, 6), 'm'),
    'rout_efficiency': (bct.rout_efficiency, 'smv'), 'erange': (bct.erange, 'msms'),
    'rich_club_wd': (lambda A: bct.rich_club_wd(A, klevel=6), 's'),
    'mean_first_passage_time': (lambda A: bct.mean_first_passage_time(A) if ss.strongly_connected(A) else np.zeros((len(A),) * 2), 'm'),
    'charpath(distance_bin)': (lambda A: bct.charpath(bct.distance_bin(A))[:2] + (bct.charpath(bct.distance_bin(A))[2],), 'ssv'),
}
UND = {
    'degrees_und': (bct.degrees_und, 'v'), 'strengths_und': (bct.strengths_und, 'v'),
    'density_und': (bct.density_und, 'sss'), 'clustering_coef_bu': (bct.clustering_coef_bu, 'v'),
    'clustering_coef_wu': (bct.clustering_coef_wu, 'v'), 'transitivity_bu': (bct.transitivity_bu, 's'),
    'transitivity_wu': (bct.transitivity_wu, 's'), 'kcore_bu[2]': (lambda A: bct.kcore_bu(A, 2), 'ms'),
    'kcoreness_centrality_bu': (bct.kcoreness_centrality_bu, 'vs'), 'score_wu[2]': (lambda A: bct.score_wu(A, 2), 'ms'),
    'rich_club_bu': (lambda A: bct.rich_club_bu(A, klevel=3), 'sss'), 'rich_club_wu': (lambda A: bct.rich_club_wu(A, klevel=3), 's'),
    'assortativity_bin[0]': (lambda A: bct.assortativity_bin(A, 0), 's'),
    'assortativity_wei[0]': (lambda A: bct.assortativity_wei(A, 0), 's'),
    'edge_nei_overlap_bu': (lambda A: bct.edge_nei_overlap_bu(A)[0], 'm'), 'matching_ind_und': (bct.matching_ind_und, 'm'),
    'get_components': (comp_matrix, 'm'), 'number_of_components': (bct.number_of_components, 's'),
    'subgraph_centrality': (bct.subgraph_centrality, 'v'),
    'eigenvector_centrality_und': (lambda A: bct.eigenvector_centrality_und(A) if ss.is_connected(A) and A.any()
                                   else np.zeros(len(A)), 'v'),
    'diffusion_efficiency': (lambda A: bct.diffusion_efficiency(A) if ss.is_connected(A) and A.any() else (0.0, np.zeros((len(A),) * 2)), 'sm'),
    'distance_wei[D]': (lambda A: bct.distance_wei(A)[0], 'm'), 'betweenness_wei': (bct.betweenness_wei, 'v'),
    'edge_betweenness_wei': (bct.edge_betweenness_wei, 'mv'), 'efficiency_wei[local]': (lambda A: bct.efficiency_wei(A, local=True), 'v'),
    'resource_efficiency_bin[.5]': (lambda A: bct.resource_efficiency_bin(A, 0.5), 'mm'),
    'resource_efficiency_bin[0]': (lambda A: bct.resource_efficiency_bin(A, 0), 'mm'),
}
SIGNED = {
    'strengths_und_sign': (bct.strengths_und_sign, 'vvss'),
    'clustering_coef_wu_sign[default]': (lambda A: bct.clustering_coef_wu_sign(A, 'default'), 'vv'),
    'clustering_coef_wu_sign[zhang]': (lambda A: bct.clustering_coef_wu_sign(A, 'zhang'), 'vv'),
    'clustering_coef_wu_sign[costantini]': (lambda A: bct.clustering_coef_wu_sign(A, 'costantini'), 'v'),
    'local_assortativity_wu_sign': (bct.local_assortativity_wu_sign, 'vv'),
}
WITH_CI = {   # (function(A, ci), kinds, family)
    'participation_coef': (lambda A, ci: bct.participation_coef(A, ci), 'v', 'und12'),
    'participation_coef[in]': (lambda A, ci: bct.participation_coef(A, ci, degree='in'), 'v', 'dirci'),
    'module_degree_zscore': (lambda A, ci: bct.module_degree_zscore(A, ci), 'v', 'und12'),
    'module_degree_zscore[3]': (lambda A, ci: bct.module_degree_zscore(A, ci, 3), 'v', 'dirci'),
    'participation_coef_sign': (bct.participation_coef_sign, 'vv', 'sign'),
    'diversity_coef_sign': (bct.diversity_coef_sign, 'vv', 'sign'),
    'gateway_coef_sign': (bct.gateway_coef_sign, 'vv', 'sign'),
    'modularity_und_sign': (lambda A, ci: bct.modularity_und_sign(A, ci)[1], 's', 'sign'),
    'modularity_und[kci]': (lambda A, ci: bct.modularity_und(A, kci=ci)[1], 's', 'und12'),
}
FAMS = {
    'dir4': (True, 4, (0, 1)), 'und4': (False, 4, (0, 1)), 'und12': (False, 4, (0, 1, 2)),
    'sign': (False, 4, (-1, 0, 1)), 'und5': (False, 5, (0, 1)), 'dirw3': (True, 3, (0, 1, 2)),
    'dirci': (True, 4, (0, 1)),
    'unddec4': (False, 4, (0, 0.1, 0.2, 0.3, 0.4)), 'dirdec3': (True, 3, (0, 0.1, 0.2, 0.3, 0.4)),
    'undulp4': (False, 4, (0, 0.4, 0.3, 0.1 + 0.2)),     # two weights one rounding error apart
    'und12_5': (False, 5, (0, 1, 2)),
}


THOROUGH = [False]
PATH_WEIGHTED = ('betweenness_wei', 'edge_betweenness_wei', 'distance_wei[D]', 'efficiency_wei[local]')


def plan(ctx):
    THOROUGH[0] = ctx.thorough
    units = []
    for name in DIR:
        units.append(('plain', 'dir4', 'DIR', name))
        units.append(('plain', 'dirw3', 'DIR', name))
    for name in UND:
        units.append(('plain', 'und4', 'UND', name))
        units.append(('plain', 'und12', 'UND', name))
        if ctx.thorough:
            units.append(('plain', 'und5', 'UND', name))
    for name in PATH_WEIGHTED:
        units.append(('plain', 'undulp4', 'UND', name))     # rounding-level near-ties
        if THOROUGH[0]:
            units.append(('plain', 'unddec4', 'UND', name))
            if name in DIR:
                units.append(('plain', 'dirdec3', 'DIR', name))
    # 5 nodes, lengths {1,2} (59 049 graphs): the family is closed under renumbering, so equivariance under the four
    # adjacent transpositions for every graph implies it for all 120 renumberings
    for name in PATH_WEIGHTED if ctx.thorough else PATH_WEIGHTED[:2]:
        for (a, b) in ss.ranges(ss.und_count(5, (0, 1, 2)), 32):
            units.append(('gen', 'und12_5', 'UND', name, a, b))
    # every free tree on 8 nodes (23 shapes) under the renumberings of bctmc/trees.py (BFS / DFS / peeling / degree orders
    # from every root): long paths and deep structures that no 4-5 node graph has
    for table, T in (('DIR', DIR), ('UND', UND)):
        for name in T:
            units.append(('shapes', 'tree8', table, name))
    for name in SIGNED:
        units.append(('plain', 'sign', 'SIGNED', name))
    # thorough only: one irregular 260-node network per class and two renumberings (reversal, a 97-step rotation), so that
    # node indices beyond 256 (CPython's cached small integers, one-byte counters) change places with small ones
    if ctx.thorough:
        for table, T in (('DIR', DIR), ('UND', UND), ('SIGNED', SIGNED)):
            for name in T:
                if name.split('[')[0] not in BIG_SKIP:
                    units.append(('big', 'big260', table, name))
    for name in WITH_CI:
        units.append(('ci', WITH_CI[name][2], 'WITH_CI', name))
    return units


def unit_cost(unit):
    mode, fam, table, name = unit[:4]
    if mode == 'big':
        return 500 if 'sign' in name or 'passage' in name or 'diffusion' in name else 80
    if mode == 'gen':
        return 60
    return (100 if mode == 'ci' else 0) + {'dir4': 50, 'und5': 40, 'sign': 30, 'und12': 30}.get(fam, 0) + \
        (20 if 'betweenness' in name or 'gateway' in name or 'efficiency' in name else 0)


def permute(kind, val, p):
    v = np.asarray(val, dtype=float)
    if kind == 'v':
        return v[p] if v.ndim >= 1 and len(v) == len(p) else v
    if kind == 'm':
        return v[np.ix_(p, p)]
    return v


def graphs_of(fam):
    directed, n, alpha = FAMS[fam]
    tot = ss.dir_count(n, alpha) if directed else ss.und_count(n, alpha)
    gen = ss.dir_graph if directed else ss.und_graph
    idx_of = ss.dir_index if directed else ss.und_index
    return n, alpha, [gen(n, alpha, i) for i in range(tot)], idx_of


def evaluate(f, *args, timeout=20):
    st, out = guarded(lambda *a: f(*a), *[a.copy() for a in args], _timeout=timeout)
    if st != 'ok':
        return ('exc', type(out).__name__)
    return ('ok', out if isinstance(out, tuple) else (out,))


def compare(t, fname, kinds, base, other, p, case):
    """base: result on A; other: result on A[p,p]; expectation other == permute(base)."""
    if ('exc', 'CaseTimeout') in (base, other):     # the call budget ran out: never "both raise the same exception"
        t.viol(fname, 'does_not_terminate', case, observed='no result within the call budget (20 s; 900 s for 260 nodes)')
        return
    if base[0] != other[0] or (base[0] == 'exc' and base[1] != other[1]):
        t.viol(fname, 'equivariance:outcome', case, observed=other[1] if other[0] == 'exc' else 'returns',
               expected=base[1] if base[0] == 'exc' else 'returns')
        return
    if base[0] == 'exc':
        t.c['both_raise'] += 1
        return
    for pos, (k, a, b) in enumerate(zip(kinds, base[1], other[1])):
        exp = permute(k, a, p)
        got = np.asarray(b, dtype=float)
        if exp.shape != got.shape or not orc.close(got, exp):
            t.viol(fname, 'equivariance', case, observed=got, expected=exp, tags={'output': pos})
            return


def work_generators(unit):
    mode, fam, table, name, a, b = unit
    t = Tally(PROPERTY)
    directed, n, alpha = FAMS[fam]
    f, kinds = {'DIR': DIR, 'UND': UND}[table][name]
    gens = []
    for k in range(n - 1):
        p = list(range(n))
        p[k], p[k + 1] = p[k + 1], p[k]
        gens.append(np.array(p))
    if a == 0:
        t.c['measures'] += 1
    for idx in range(a, b):
        A = ss.und_graph(n, alpha, idx)
        base = None
        for p in gens:
            B = A[np.ix_(p, p)]
            j = ss.und_index(B, alpha)
            if j <= idx:        # j == idx: the transposition fixes the graph; j < idx: the same pair is compared from the other side
                continue
            if base is None:
                base = evaluate(f, A)
                t.c['evaluations'] += 1
            other = evaluate(f, B)
            t.c['evaluations'] += 1
            t.c['pairs_compared'] += 1
            t.c['nontrivial'] += 1
            compare(t, name.split('[')[0], kinds, base, other, p, {'measure': name, 'family': fam, 'A': A, 'perm': p})
    if a == 0:
        t.sample({'measure': name, 'family': fam, 'graphs': ss.und_count(n, alpha), 'renumberings': 'adjacent transpositions (generate all)'})
    return t


def work_shapes(unit):
    mode, fam, table, name = unit
    t = Tally(PROPERTY)
    f, kinds = {'DIR': DIR, 'UND': UND}[table][name]
    t.c['measures'] += 1
    for si, A, perms in trees.shape_orders(8):
        base = evaluate(f, A)
        t.c['evaluations'] += 1
        for lab, p in perms:
            other = evaluate(f, A[np.ix_(p, p)])
            t.c['evaluations'] += 1
            t.c['pairs_compared'] += 1
            t.c['nontrivial'] += 1
            compare(t, name.split('[')[0], kinds, base, other, p,
                    {'measure': name, 'family': fam, 'A': A, 'perm': p, 'order': lab})
    return t


BIG_N = 260
BIG_SKIP = ('findwalks', 'erange', 'resource_efficiency_bin')    # minutes per call at this size


def big_graph(table):
    n = BIG_N
    A = np.zeros((n, n))
    for i in range(n):
        for d in (1, 2, 5) + ((31,) if i % 11 == 0 else ()) + ((3,) if i > 250 else ()):
            j = (i + d) % n
            w = 1.0 + ((i * 7 + d) % 3)
            if table == 'SIGNED' and (i + d) % 4 == 0:
                w = -w
            A[i, j] = w
            if table != 'DIR' or i % 3:
                A[j, i] = w
    return A


def work_big(unit):
    mode, fam, table, name = unit
    t = Tally(PROPERTY)
    f, kinds = {'DIR': DIR, 'UND': UND, 'SIGNED': SIGNED}[table][name]
    t.c['measures'] += 1
    A = big_graph(table)
    base = evaluate(f, A, timeout=900)
    t.c['evaluations'] += 1
    if base == ('exc', 'CaseTimeout'):
        t.c['big_not_finished_in_900s'] += 1        # nothing is claimed for this measure at this size
        return t
    for lab, p in (('reversal', np.arange(BIG_N)[::-1]), ('rotation97', (np.arange(BIG_N) + 97) % BIG_N)):
        other = evaluate(f, A[np.ix_(p, p)], timeout=900)
        t.c['evaluations'] += 1
        if other == ('exc', 'CaseTimeout'):
            t.c['big_not_finished_in_900s'] += 1
            continue
        t.c['pairs_compared'] += 1
        t.c['nontrivial'] += 1
        compare(t, name.split('[')[0], kinds, base, other, p,
                {'measure': name, 'family': fam, 'table': table, 'big': True, 'perm': p, 'order': lab})
    t.sample({'measure': name, 'family': fam, 'nodes': BIG_N, 'renumberings': 2})
    return t


def work(unit):
    if unit[0] == 'gen':
        return work_generators(unit)
    if unit[0] == 'big':
        return work_big(unit)
    if unit[0] == 'shapes':
        return work_shapes(unit)
    mode, fam, table, name = unit
    t = Tally(PROPERTY)
    n, alpha, graphs, idx_of = graphs_of(fam)
    perms = ss.perms(n)
    ident = list(range(n))
    if mode == 'plain':
        f, kinds = {'DIR': DIR, 'UND': UND, 'SIGNED': SIGNED}[table][name]
        vals = [evaluate(f, A) for A in graphs]
        t.c['evaluations'] += len(graphs)
        t.c['measures'] += 1
        for gi, A in enumerate(graphs):
            for p in perms:
                if list(p) == ident:
                    continue
                B = A[np.ix_(p, p)]
                gj = idx_of(B, alpha)
                t.c['pairs_compared'] += 1
                if gj != gi:
                    t.c['nontrivial'] += 1
                compare(t, name.split('[')[0], kinds, vals[gi], vals[gj], p,
                        {'measure': name, 'family': fam, 'A': A, 'perm': p})
        if vals:
            t.sample({'measure': name, 'family': fam, 'graphs': len(graphs), 'renumberings': len(perms)})
        return t
    f, kinds, _ = WITH_CI[name]
    parts = [np.array(c) for c in ss.set_partitions(n)]
    if fam == 'dirci':
        graphs = graphs[::8]
    elif not THOROUGH[0]:
        graphs = graphs[::3]
    t.c['measures'] += 1
    for A in graphs:
        for ci in parts:
            base = evaluate(f, A, ci)
            t.c['evaluations'] += 1
            for p in perms[1::3]:
                other = evaluate(f, A[np.ix_(p, p)], ci[p])
                t.c['pairs_compared'] += 1
                t.c['nontrivial'] += 1
                compare(t, name.split('[')[0], kinds, base, other, p,
                        {'measure': name, 'family': fam, 'A': A, 'ci': ci, 'perm': p})
    return t


def replay(rec):
    t = Tally(PROPERTY)
    c = rec['case']
    A = big_graph(c['table']) if c.get('big') else np.array(c['A'], dtype=float)
    p = np.array(c['perm'])
    name = c['measure']
    for table in (DIR, UND, SIGNED):
        if name in table and 'ci' not in c:
            f, kinds = table[name]
            to = 900 if c.get('big') else 20
            compare(t, name.split('[')[0], kinds, evaluate(f, A, timeout=to), evaluate(f, A[np.ix_(p, p)], timeout=to), p, c)
            return t
    f, kinds, _ = WITH_CI[name]
    ci = np.array(c['ci'])
    compare(t, name.split('[')[0], kinds, evaluate(f, A, ci), evaluate(f, A[np.ix_(p, p)], ci[p]), p, c)
    return t
