"""C02 - community detectors return a valid partition and its true modularity.

Engine A (rngmc): ALL node visiting orders at every sweep (n! menu per sweep, states merged
at each sweep start) for the randomised detectors; engine B: every graph x every partition
for the deterministic modularity_und/_dir/_und_sign.
"""
import numpy as np

import bct
from bctmc import louvain as lv
from bctmc import smallscope as ss
from bctmc import oracles as orc
from bctmc import named
from bctmc.runner import guarded
from bctmc.tally import Tally

PROPERTY = 'C02'
RULE = ('a 54-node network with three nested levels (2 x 3 x 3 triangles) under the four answer strategies of bctmc/structured.py (not exhaustive over orders) for community_louvain, modularity_louvain_und and modularity_finetune_und; randomised detectors: every labelled 4-node graph with positive weight (binary), every 3-node digraph, 4-node '
        'signed patterns (also with self-connections of either sign), a few named 5-6 node graphs, signed patterns with one sign class scaled by 1e-10, int64 and int32 (weights 2^30) copies of a subset, directed signed 3-node networks over {-1,0,1,2} for the signed objectives of community_louvain; gamma in {1, 1.25} (subsets also with 0.5 and 3); probtune p in {0, 0.45, 1}; every built-in objective / qtype; initial '
        'partition none or one of a fixed subset of the 15 set partitions (all 15 in thorough), subsets also with zero-based, gapped and larger-than-n labels and with every set partition under reversed / cyclically shifted labels; hierarchy in {False, True}; '
        'ALL visiting orders at every sweep; deterministic modularity_und/_dir/_und_sign: every graph n<=4 (5 thorough) / '
        'digraph n<=3 (4 thorough) x kci in {None, every set partition} x gamma, and the structured 7-10 node family of bctmc/named.py x 4 partitions; non-trivial = configuration with >= 2 '
        'distinct reachable (partition, q) outcomes, or (deterministic) a graph with >= 2 components of the answer')
ASSUMPTIONS = ['reference modularity computed from the definition in bctmc/louvain.py (double loop)',
               'state merging as in C01; probtune p represented by one point on each side of p',
               'float64 inputs; q compared with tolerance 1e-9']

GAMMAS = (1, 1.25)
QTYPES = ('sta', 'pos', 'smp', 'gja', 'neg')
PARTS4_QUICK = [(1, 1, 1, 1), (1, 1, 2, 2), (1, 2, 1, 2), (1, 2, 2, 3), (1, 2, 3, 1)]


def catalogue(thorough):
    cfgs = []
    und4 = lv.und_graphs(4)
    und3 = lv.und_graphs(3)
    dir3 = lv.dir_graphs(3)
    parts4 = ss.set_partitions(4) if thorough else PARTS4_QUICK
    parts3 = ss.set_partitions(3)
    named = lv.named()

    def add(fn, tag, W, **kw):
        cfgs.append({'fn': fn, 'tag': tag, 'W': W, 'kw': kw})
    und_pool = und4 if thorough else und4[::3] + und3
    for tag, W in und_pool:
        n = len(W)
        parts = parts4 if n == 4 else parts3
        for g in GAMMAS:
            for B in ('modularity', 'potts'):
                add('community_louvain', tag, W, gamma=g, B=B, ci=None)
            for ci in (parts if g == 1 else parts[:2]):
                add('community_louvain', tag, W, gamma=g, B='modularity', ci=list(ci))
                add('modularity_finetune_und', tag, W, gamma=g, ci=list(ci))
            add('modularity_finetune_und', tag, W, gamma=g, ci=None)
            for h in (False, True):
                add('modularity_louvain_und', tag, W, gamma=g, hierarchy=h)
    dir_pool = (dir3[::2] + lv.dir_graphs(4, 4)[::23]) if not thorough else (dir3 + lv.dir_graphs(4, 6)[::2])
    for tag, W in dir_pool:
        n = len(W)
        parts = parts3 if n == 3 else parts4
        for g in (GAMMAS if (thorough or n == 3) else (1,)):
            add('community_louvain', tag, W, gamma=g, B='modularity', ci=None)
            for h in (False, True):
                add('modularity_louvain_dir', tag, W, gamma=g, hierarchy=h)
            add('modularity_finetune_dir', tag, W, gamma=g, ci=None)
            for ci in parts[:3]:
                add('modularity_finetune_dir', tag, W, gamma=g, ci=list(ci))
    sg = lv.signed_graphs(4 if thorough else 3)
    sg = sg if thorough else sg[::3]
    for tag, W in sg:
        for g in GAMMAS:
            for B in ('negative_sym', 'negative_asym'):
                add('community_louvain', tag, W, gamma=g, B=B, ci=None)
            for qt in (QTYPES if g == 1 else ('sta', 'gja')):
                add('modularity_louvain_und_sign', tag, W, gamma=g, qtype=qt)
                add('modularity_finetune_und_sign', tag, W, gamma=g, qtype=qt, ci=None)
            add('modularity_finetune_und_sign', tag, W, gamma=g, qtype='sta', ci=[1, 1, 2, 2])
    # signed networks with self-connections of either sign (the gain formulas carry W[u,u] terms)
    diag_pool = sg[::5] if thorough else sg[::9]
    for tag, W in diag_pool:
        for dname, dg in (('dneg', [-3.0, 0.0, 1.0, 0.0]), ('dpos', [2.0, 0.0, 0.0, 1.0]), ('dmix', [0.0, -1.0, -2.0, 0.5])):
            Wd = W.copy()
            np.fill_diagonal(Wd, dg)
            for qt in ('sta', 'gja'):
                add('modularity_finetune_und_sign', tag + '_' + dname, Wd, gamma=1, qtype=qt, ci=None)
                add('modularity_finetune_und_sign', tag + '_' + dname, Wd, gamma=1, qtype=qt, ci=[2, 2, 1, 2])
                add('modularity_louvain_und_sign', tag + '_' + dname, Wd, gamma=1, qtype=qt)
            add('community_louvain', tag + '_' + dname, Wd, gamma=1, B='negative_asym', ci=None)
    for tag, W in (und4[::9] if not thorough else und4[::4]):
        Wd = W.copy()
        np.fill_diagonal(Wd, [1.0, 0.0, 2.0, 0.0])
        add('modularity_finetune_und', tag + '_dpos', Wd, gamma=1, ci=None)
        add('modularity_finetune_und', tag + '_dpos', Wd, gamma=1, ci=[1, 1, 2, 2])
        add('modularity_louvain_und', tag + '_dpos', Wd, gamma=1, hierarchy=False)
        add('community_louvain', tag + '_dpos', Wd, gamma=1, B='modularity', ci=None)
    sg3 = [('sg3_%d' % k, np.array([[0, a, b], [a, 0, c], [b, c, 0]], dtype=float))
           for k, (a, b, c) in enumerate([(1, -1, 0), (1, 2, -1), (2, -1, -1), (1, 1, 1), (1, -2, 1), (-1, 1, 0)])]
    for tag, W in sg3 + (sg[::6] if thorough else []):
        for g in GAMMAS:
            add('modularity_probtune_und_sign', tag, W, gamma=g, qtype='sta', ci=None, p=0.45)
        add('modularity_probtune_und_sign', tag, W, gamma=1, qtype='gja', ci=[1, 1, 2] if len(W) == 3 else [1, 1, 2, 2],
            p=0.45)
    for tag in ('triangle_tail5',) + (('two_triangles_bridge6',) if thorough else ()):
        W = named[tag]
        add('community_louvain', tag, W, gamma=1, B='modularity', ci=None)
        add('modularity_louvain_und', tag, W, gamma=1, hierarchy=True)
        add('modularity_finetune_und', tag, W, gamma=1, ci=None)
    # inputs where >= 3 modules survive the first level and the second level merges two of them
    for tag, ci in (('three_pairs6', [1, 1, 2, 2, 3, 3]), ('three_pairs6', [1, 1, 2, 2, 3, 4]),
                    ('three_pairs6', [1, 2, 3, 3, 4, 4]), ('three_pairs6', [1, 1, 2, 3, 4, 4]),
                    ('pair_node_pair5', [1, 1, 2, 3, 4]), ('pair_node_pair5', [1, 1, 2, 3, 3]),
                    ('pair_chain6', [1, 1, 2, 2, 3, 3]), ('pair_node_pair5', None), ('three_pairs6', None)) + \
            ((('pair_chain6', None),) if thorough else ()):
        W = named[tag]
        for g in ((1, 0.75) if ci is not None else (1,)):
            add('community_louvain', tag, W, gamma=g, B='modularity', ci=ci)
        add('modularity_finetune_und', tag, W, gamma=1, ci=ci)
        if ci is None:
            add('modularity_louvain_und', tag, W, gamma=1, hierarchy=True)
            add('modularity_louvain_und', tag, W, gamma=1, hierarchy=False)
    # boundary values of the scalar parameters: p in {0, 1}; gamma below 1 and far above 1
    for tag, W in sg3:
        for pv in (0, 1):
            add('modularity_probtune_und_sign', tag, W, gamma=1, qtype='sta', ci=None, p=pv)
        for g in (0.5, 3):
            add('modularity_louvain_und_sign', tag, W, gamma=g, qtype='sta')
            add('modularity_finetune_und_sign', tag, W, gamma=g, qtype='smp', ci=None)
            add('community_louvain', tag, W, gamma=g, B='negative_sym', ci=None)
    for tag, W in (und4[::7] if not thorough else und4[::3]):
        for g in (0.5, 3):
            add('community_louvain', tag, W, gamma=g, B='potts', ci=None)
            add('community_louvain', tag, W, gamma=g, B='modularity', ci=None)
            add('modularity_louvain_und', tag, W, gamma=g, hierarchy=True)
            add('modularity_finetune_und', tag, W, gamma=g, ci=None)
        # starting partitions whose labels are not 1..k: zero-based, with gaps, larger than n
        for ci in ([0, 0, 1, 1], [7, 30, 7, 30], [5, 9, 9, 9]):
            add('community_louvain', tag, W, gamma=1, B='modularity', ci=ci)
            add('modularity_finetune_und', tag, W, gamma=1, ci=ci)
    # every set partition as a start, with its labels permuted (reversed / cyclically shifted): a start is a labelling,
    # not a canonical restricted-growth string
    def permuted_labellings(parts):
        out = []
        for P in parts:
            k = max(P)
            for f in (lambda c: k + 1 - c, lambda c: c % k + 1):
                Q = [f(c) for c in P]
                if Q != list(P) and Q not in out:
                    out.append(Q)
        return out
    pl4 = permuted_labellings(ss.set_partitions(4))
    pl3 = permuted_labellings(parts3)
    for tag, W in (und4[::9] if not thorough else und4[::4]):
        for ci in pl4:
            add('modularity_finetune_und', tag, W, gamma=1, ci=ci)
            add('community_louvain', tag, W, gamma=1, B='modularity', ci=ci)
    for tag, W in dir3[::7]:
        for ci in pl3:
            add('modularity_finetune_dir', tag, W, gamma=1, ci=ci)
    for tag, W in sg[::5]:
        for ci in (pl4 if len(W) == 4 else pl3):
            add('modularity_finetune_und_sign', tag, W, gamma=1, qtype='sta', ci=ci)
    for tag, W in sg3[:3]:
        for ci in pl3:
            add('modularity_probtune_und_sign', tag, W, gamma=1, qtype='sta', ci=ci, p=0.45)
    for tag, W in dir3[::5]:
        for ci in ([0, 0, 1], [7, 30, 7]):
            add('modularity_finetune_dir', tag, W, gamma=1, ci=ci)
        for g in (0.5, 3):
            add('modularity_louvain_dir', tag, W, gamma=g, hierarchy=True)
            add('modularity_finetune_dir', tag, W, gamma=g, ci=None)
    for tag, W in sg[::7]:
        for ci in ([0, 0, 1, 1], [7, 30, 7, 30])[:2] if len(W) == 4 else ([0, 0, 1], [7, 30, 7]):
            add('modularity_finetune_und_sign', tag, W, gamma=1, qtype='sta', ci=ci)
            add('modularity_probtune_und_sign', tag, W, gamma=1, qtype='sta', ci=ci, p=0.45)
    # one sign class present but faint (total weight 1e-10): it still counts at full scale in 'sta' / 'smp' / 'pos'
    for tag, W in (sg[::2] if not thorough else sg):
        for fname, Wf in (('faintpos', np.where(W > 0, W * 1e-10, W)), ('faintneg', np.where(W < 0, W * 1e-10, W))):
            for qt in ('sta', 'smp', 'pos'):
                add('modularity_finetune_und_sign', tag + '_' + fname, Wf, gamma=1, qtype=qt, ci=None)
                add('modularity_finetune_und_sign', tag + '_' + fname, Wf, gamma=1, qtype=qt, ci=[1, 1, 2, 2][:len(W)])
                add('modularity_finetune_und_sign', tag + '_' + fname, Wf, gamma=1, qtype=qt, ci=[1, 2, 1, 2][:len(W)])
                add('modularity_louvain_und_sign', tag + '_' + fname, Wf, gamma=1, qtype=qt)
    # integer element types; int32 with weights of 2^30 (any pooled pair of nodes passes 2^31)
    for tag, W in (und4[::13] if not thorough else und4[::5]):
        for dt, scale in (('int32', 2 ** 30), ('int64', 1)):
            Wi = W * scale
            for fn, kw in (('modularity_louvain_und', {'gamma': 1, 'hierarchy': True}), ('modularity_finetune_und', {'gamma': 1, 'ci': None}),
                           ('community_louvain', {'gamma': 1, 'B': 'modularity', 'ci': None})):
                cfgs.append({'fn': fn, 'tag': tag + '_' + dt, 'W': Wi, 'kw': dict(kw), 'W_dtype': dt})
    # directed signed networks (only community_louvain accepts them): the null model is out-strength x in-strength
    dsg = []
    for idx in range(ss.dir_count(3, (0, 1, -1, 2))):
        X = ss.dir_graph(3, (0, 1, -1, 2), idx)
        if (X > 0).any() and (X < 0).any() and not np.array_equal(X, X.T) and \
                not np.array_equal((X * (X < 0)).sum(axis=0), (X * (X < 0)).sum(axis=1)):
            dsg.append(('dsg3_%d' % idx, X))
    for tag, X in (dsg[::41] if not thorough else dsg[::7]):
        for B in ('negative_sym', 'negative_asym'):
            for g in (1, 1.25):
                add('community_louvain', tag, X, gamma=g, B=B, ci=None)
    W = named['two_dtriangles_shared5']
    add('modularity_louvain_dir', 'two_dtriangles_shared5', W, gamma=1, hierarchy=True)
    add('community_louvain', 'two_dtriangles_shared5', W, gamma=1, B='modularity', ci=None)
    return cfgs


THOROUGH = [False]


def nested54():
    """2 x 3 x 3 triangles with weights 4 / 1 / 0.4 / 0.02 per nesting level: three aggregation levels are resolved in
    separate passes (no 4-6 node input has a third merging pass)."""
    n = 54
    W = np.zeros((n, n))
    for i in range(n):
        for j in range(i + 1, n):
            if i // 3 == j // 3:
                w = 4.0
            elif i // 9 == j // 9:
                w = 1.0
            elif i // 27 == j // 27:
                w = 0.4
            else:
                w = 0.02
            W[i, j] = W[j, i] = w
    return W


def work_nested():
    """54 nodes: the n! menus cannot be enumerated; the four answer strategies of bctmc/structured.py are (stated, not
    exhaustive over answers)."""
    from bctmc.structured import StructuredRandomState, STRATEGIES
    t = Tally(PROPERTY)
    W = nested54()
    calls = [('community_louvain', {'gamma': g, 'B': 'modularity'}) for g in (0.8, 1.0, 0.6)] + \
            [('modularity_louvain_und', {'gamma': g, 'hierarchy': h}) for g in (0.8, 1.0) for h in (False, True)] + \
            [('modularity_finetune_und', {'gamma': 0.8})]
    for fn, kw in calls:
        for strat in STRATEGIES:
            st, out = guarded(getattr(bct, fn), W.copy(), seed=StructuredRandomState(strat), _timeout=600, **kw)
            t.c['evaluations'] += 1
            case = {'config': {'fn': fn, 'tag': 'nested54', 'kw': kw}, 'answer_strategy': strat}
            if st != 'ok':
                t.viol(fn, 'raises', case, observed=out)
                continue
            ci, q = out
            levels = list(zip(ci, q)) if kw.get('hierarchy') else [(ci, q)]
            for lev, (c, qq) in enumerate(levels):
                c = np.asarray(c).astype(int)
                if sorted(set(c.tolist())) != list(range(1, int(c.max()) + 1)) or len(c) != len(W):
                    t.viol(fn, 'labels_1_to_k', dict(case, level=lev), observed=sorted(set(c.tolist()))[:10])
                    continue
                ref = lv.q_dir(W, c, kw['gamma'])
                if abs(float(qq) - ref) > 1e-9:
                    t.viol(fn, 'q_is_modularity_of_returned_partition', dict(case, level=lev), observed=float(qq), expected=ref,
                           detail={'modules': int(c.max())})
    t.c['nontrivial'] += 1
    return t


def plan(ctx):
    THOROUGH[0] = ctx.thorough
    cfgs = catalogue(ctx.thorough)
    units = []
    big = [c for c in cfgs if len(c['W']) >= 5]
    small = [c for c in cfgs if len(c['W']) < 5]
    for c in big:                       # n! menus per sweep: one configuration per unit, scheduled first
        units.append(('explore', [c]))
    for k in range(0, len(small), 6):
        units.append(('explore', small[k:k + 6]))
    units.append(('nested', 0, 0, 0))
    nu = 5 if ctx.thorough else 4
    nd = 4 if ctx.thorough else 3
    for n in range(2, nu + 1):
        tot = ss.und_count(n, (0, 1))
        for (a, b) in ss.ranges(tot, 32 if n >= 5 else 2):
            units.append(('det_und', n, a, b))
    for n in range(2, nd + 1):
        tot = ss.dir_count(n, (0, 1))
        for (a, b) in ss.ranges(tot, 64 if n >= 4 else 2):
            units.append(('det_dir', n, a, b))
    tot = ss.und_count(4, (-1, 0, 1))
    for (a, b) in ss.ranges(tot, 16):
        units.append(('det_sign', 4, a, b))
    for tag in ('bin_und', 'bin_dir', 'len_und'):
        for (a, b) in ss.ranges(len(named.family(tag)), 12):
            units.append(('det_named', tag, a, b))
    return units


def unit_cost(unit):
    return max(len(c['W']) for c in unit[1]) if unit[0] == 'explore' else 0


def check_pair(t, cfg, ci, q, case_fn, label=''):
    fn = cfg['fn']
    n = len(cfg['W'])
    why = lv.valid_partition(ci, n)
    if why:
        t.viol(fn, label + 'labels_form_1_to_k', case_fn(), observed=ci, expected=why)
        return True
    ref = lv.q_ref(cfg, list(ci))
    if not orc.close(q, ref):
        W = np.asarray(cfg['W'])
        t.viol(fn, label + 'q_is_modularity_of_returned_partition', case_fn(), observed=q, expected=ref,
               detail={'ci': ci}, tags={'gamma': cfg['kw'].get('gamma', 1),
                                        'nodes_merged': bool(len(set(int(x) for x in ci)) < n),
                                        'asymmetric_input': bool(not np.array_equal(W, W.T))})
        return True
    return False


def judge(t, cfg, status, value, case_fn):
    fn = cfg['fn']
    if status != 'ok':
        t.viol(fn, 'raises' if status == 'exc' else 'does_not_terminate', case_fn(), observed=value)
        return True
    ci, q = value
    if cfg['kw'].get('hierarchy'):
        ci = np.asarray(ci)
        qs = list(q)
        if ci.ndim != 2 or len(qs) != len(ci):
            t.viol(fn, 'hierarchy_shape', case_fn(), observed=[ci.shape, len(qs)])
            return True
        bad = False
        for lvl in range(len(qs)):
            bad |= check_pair(t, cfg, ci[lvl], qs[lvl], case_fn, label='level:')
        return bad
    return check_pair(t, cfg, ci, q, case_fn)


def det_case(t, fname, W, kw, case, qref):
    f = getattr(bct, fname)
    st, out = guarded(f, W.copy(), **{k: (np.array(v) if isinstance(v, (list, tuple)) else v) for k, v in kw.items()})
    t.c['evaluations'] += 1
    if st != 'ok':
        t.viol(fname, 'raises', case, observed=out)
        return
    ci, q = out
    given = kw.get('kci', kw.get('ci'))
    # with a partition supplied the routines only evaluate it and hand the caller's labels back: the 1..k clause
    # applies to detected partitions
    why = lv.valid_partition(ci, len(W)) if given is None else None
    if given is not None and np.asarray(ci).shape != (len(W),):
        why = 'shape'
    if why:
        t.viol(fname, 'labels_form_1_to_k', case, observed=ci, expected=why)
        return
    if given is not None and not lv.same_partition(ci, given):
        t.viol(fname, 'given_partition_returned', case, observed=ci, expected=given)
        return
    ref = qref(list(ci))
    if not orc.close(q, ref):
        t.viol(fname, 'q_is_modularity_of_returned_partition', case, observed=q, expected=ref, detail={'ci': ci})


def work(unit):
    if unit[0] == 'nested':
        return work_nested()
    t = Tally(PROPERTY)
    if unit[0] == 'explore':
        for cfg in unit[1]:
            t.merge(lv.explore_config(PROPERTY, cfg, judge, max_executions=2000000 if THOROUGH[0] else 200000))
        return t
    kind, n, a, b = unit
    if kind == 'det_named':
        fam = named.family(n)
        fname = 'modularity_dir' if n == 'bin_dir' else 'modularity_und'
        for idx in range(a, b):
            label, W = fam[idx]
            m = len(W)
            if W.sum() == 0:
                continue
            kcis = [None, [1 + (v % 2) for v in range(m)], [1 + (v * 3) // m for v in range(m)],
                    [10 * (1 + v // 2) for v in range(m)]]
            for g in GAMMAS:
                for kci in kcis:
                    case = {'family': 'det_named:' + n, 'index': idx, 'graph': label, 'W': W, 'kci': kci, 'gamma': g}
                    det_case(t, fname, W, {'gamma': g, 'kci': kci}, case, lambda c, W=W, g=g: lv.q_dir(W, c, g))
            t.c['nontrivial'] += 1
        return t
    parts = ss.set_partitions(n)
    for idx in range(a, b):
        if kind == 'det_sign':
            W = ss.und_graph(n, (-1, 0, 1), idx)
            if not np.any(W):
                continue
            for ci in parts:
                for qt in QTYPES:
                    case = {'family': kind, 'index': idx, 'W': W, 'ci': list(ci), 'qtype': qt}
                    det_case(t, 'modularity_und_sign', W, {'ci': list(ci), 'qtype': qt}, case,
                             lambda c, W=W, qt=qt: lv.q_signed(W, c, 1.0, qt))
            t.c['nontrivial'] += 1
            continue
        W = ss.und_graph(n, (0, 1), idx) if kind == 'det_und' else ss.dir_graph(n, (0, 1), idx)
        if W.sum() == 0:
            continue
        fname = 'modularity_und' if kind == 'det_und' else 'modularity_dir'
        for g in GAMMAS:
            for kci in [None] + [list(p) for p in parts]:
                case = {'family': kind, 'index': idx, 'W': W, 'kci': kci, 'gamma': g}
                det_case(t, fname, W, {'gamma': g, 'kci': kci}, case, lambda c, W=W, g=g: lv.q_dir(W, c, g))
        t.c['nontrivial'] += 1
        if idx % 37 == 5:
            t.sample({'family': kind, 'W': W}, order=-n * 10 ** 6 + idx)
    return t


def coverage(ctx, total):
    c = total.c
    return {'states': int(c['states']), 'transitions': int(c['transitions']),
            'traces_validated_against_impl': int(c['executions'])}


def replay(rec):
    case = rec['case']
    if 'answer_strategy' in case:
        return work_nested()
    if 'config' in case:
        return lv.replay_case(PROPERTY, rec, judge)
    t = Tally(PROPERTY)
    W = np.array(case['W'], dtype=float)
    if case['family'].startswith('det_named'):
        fname = 'modularity_dir' if case['family'].endswith('bin_dir') else 'modularity_und'
        det_case(t, fname, W, {'gamma': case['gamma'], 'kci': case['kci']}, case, lambda c: lv.q_dir(W, c, case['gamma']))
        return t
    if case['family'] == 'det_sign':
        det_case(t, 'modularity_und_sign', W, {'ci': case['ci'], 'qtype': case['qtype']}, case,
                 lambda c: lv.q_signed(W, c, 1.0, case['qtype']))
    else:
        fname = 'modularity_und' if case['family'] == 'det_und' else 'modularity_dir'
        det_case(t, fname, W, {'gamma': case['gamma'], 'kci': case['kci']}, case,
                 lambda c: lv.q_dir(W, c, case['gamma']))
    return t
