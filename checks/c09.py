"""C09 - clustering coefficients and transitivity equal their triangle definitions.

Engine B: all small (di)graphs, binary and with weights {1/8,1} (signed for
wu_sign), against triple-loop evaluation of the published formulas.
"""
import numpy as np

import bct
from bctmc import smallscope as ss
from bctmc import oracles as orc
from bctmc import named
from bctmc.runner import guarded
from bctmc.tally import Tally
from bctmc import dtypes

PROPERTY = 'C09'
RULE = ('element types also on dense ring lattices of 42-120 nodes (thousands of triangles per node); all 3-node weighted digraphs over {0, 4e-9, 1/2, 1} (nearly symmetric matrices with a very weak one-way connection); element types: every routine also on int64 / int32 / uint8 / bool copies of all 3-node digraphs over {0,1} and {0,1,2}, 4-node graphs over {0,1,2} and {-1,0,1}, 5-node binary graphs (same values as for float64; integers must not raise, a boolean matrix may be rejected with TypeError); the structured 7-10 node family of bctmc/named.py (binary and weights {1/8,1}) and all undirected graphs n<=5 and digraphs n<=4 (binary); weights {1/8,1} on 4-node graphs and 3-node digraphs; '
        'signed {-1,-1/8,0,1/8,1} and {-1,-1e-9,0,1e-9,1} (connections weaker than common tolerances) on 4 nodes and {-1,0,1} on 5 nodes for clustering_coef_wu_sign x 3 coef types (thorough: binary n=6, weighted '
        'n=5 und and n=4 dir); non-trivial = graph with at least one triangle and at least one node on no triangle')
ASSUMPTIONS = ['float64 inputs with empty diagonal; weights 1/8 and 1 (cube roots 1/2 and 1)',
               'reference: triple loops over node triples (Watts-Strogatz, Fagiolo, Onnela, Zhang-Horvath, '
               'Costantini-Perugini) written in this file',
               'transitivity is judged only when a connected triple exists (otherwise 0/0)']

BIN = (0, 1)
WT = (0, 0.125, 1)
SG = (-1, -0.125, 0, 0.125, 1)
FAMILIES = {
    'bin_und3': ('u', 3, BIN, 'q'), 'bin_und4': ('u', 4, BIN, 'q'), 'bin_und5': ('u', 5, BIN, 'q'),
    'bin_dir3': ('d', 3, BIN, 'q'), 'bin_dir4': ('d', 4, BIN, 'q'),
    'wt_und4': ('u', 4, WT, 'q'), 'wt_dir3': ('d', 3, WT, 'q'),
    'sg_und4': ('s', 4, SG, 'q'), 'sg_und5': ('s', 5, (-1, 0, 1), 'q'), 'sg_tiny4': ('s', 4, (-1, -1e-9, 0, 1e-9, 1), 'q'), 'wt_tiny4': ('u', 4, (0, 1e-9, 1), 'q'),
    'wd_tiny3': ('d', 3, (0, 4e-9, 0.5, 1), 'q'),     # a one-directional connection below any symmetry tolerance
    'bin_und6': ('u', 6, BIN, 't'), 'wt_und5': ('u', 5, WT, 't'), 'wt_dir4': ('d', 4, WT, 't'),
}


def named_cases():
    out = []
    for tag, kind in (('bin_und', 'u'), ('bin_dir', 'd')):
        for label, A in named.family(tag):
            n = len(A)
            i, j = np.indices((n, n))
            out.append((kind, True, label, A))
            out.append((kind, False, label + ':w', A * np.where((np.minimum(i, j) + np.maximum(i, j)) % 2 == 0, 1.0, 0.125)))
    return out


ETYPE_FUNCS = [
    ('clustering_coef_bu', bct.clustering_coef_bu, lambda A, d: not d), ('clustering_coef_bd', bct.clustering_coef_bd, None),
    ('clustering_coef_wu', bct.clustering_coef_wu, lambda A, d: not d), ('clustering_coef_wd', bct.clustering_coef_wd, None),
    ('transitivity_bu', bct.transitivity_bu, lambda A, d: not d), ('transitivity_bd', bct.transitivity_bd, None),
    ('transitivity_wu', bct.transitivity_wu, lambda A, d: not d), ('transitivity_wd', bct.transitivity_wd, None),
    ('clustering_coef_wu_sign[default]', lambda A: bct.clustering_coef_wu_sign(A, 'default'), lambda A, d: not d),
    ('clustering_coef_wu_sign[zhang]', lambda A: bct.clustering_coef_wu_sign(A, 'zhang'), lambda A, d: not d),
    ('clustering_coef_wu_sign[costantini]', lambda A: bct.clustering_coef_wu_sign(A, 'costantini'), lambda A, d: not d),
]


def plan(ctx):
    units = []
    tot = len(named_cases())
    for (a, b) in ss.ranges(tot, 16):
        units.append(('named', a, b))
    for name, (kind, n, alpha, tier) in FAMILIES.items():
        if tier == 't' and not ctx.thorough:
            continue
        tot = ss.dir_count(n, alpha) if kind == 'd' else ss.und_count(n, alpha)
        for (a, b) in ss.ranges(tot, max(1, min(800, tot // 60))):
            units.append((name, a, b))
    units += [('dense', k, 0) for k in range(len(dense_graphs()))]
    units += dtypes.units(dtypes.STD_FAMILIES + [(False, 4, (-1, 0, 1))])
    return units


def cr(x):
    return np.sign(x) * abs(x) ** (1.0 / 3.0)


def ref_undirected(W):
    """Onnela intensity numerators, k(k-1) denominators, per node (W symmetric, >=0)."""
    n = len(W)
    num = np.zeros(n)
    den = np.zeros(n)
    for u in range(n):
        nb = [j for j in range(n) if j != u and W[u, j] != 0]
        den[u] = len(nb) * (len(nb) - 1)
        for j in nb:
            for h in nb:
                if j != h and W[j, h] != 0:
                    num[u] += cr(W[u, j]) * cr(W[u, h]) * cr(W[j, h])
    return num, den


def ref_directed(W):
    """Fagiolo: t_u = 1/2 sum_{j,h} s_uj s_uh s_jh with s = w^(1/3)+w'^(1/3); denominators
    d_tot(d_tot-1) - 2 d_bilateral."""
    n = len(W)
    num = np.zeros(n)
    den = np.zeros(n)
    s = lambda a, b: cr(W[a, b]) + cr(W[b, a])  # noqa: E731
    for u in range(n):
        dtot = sum(int(W[u, j] != 0) + int(W[j, u] != 0) for j in range(n) if j != u)
        dbi = sum(1 for j in range(n) if j != u and W[u, j] != 0 and W[j, u] != 0)
        den[u] = dtot * (dtot - 1) - 2 * dbi
        for j in range(n):
            for h in range(n):
                if len({u, j, h}) == 3:
                    num[u] += s(u, j) * s(u, h) * s(j, h) / 2.0
    return num, den


def coef(num, den):
    out = np.zeros(len(num))
    for u in range(len(num)):
        if num[u] != 0:
            out[u] = num[u] / den[u]
    return out


def ref_zhang(W):
    n = len(W)
    c3 = np.zeros(n)
    c2 = np.zeros(n)
    for i in range(n):
        for j in range(n):
            for q in range(n):
                c3[i] += W[j, i] * W[i, q] * W[j, q]
                if j != q:
                    c2[i] += W[j, i] * W[i, q]
    return coef(c3, c2)


def ref_costantini(W):
    n = len(W)
    c3 = np.zeros(n)
    c2 = np.zeros(n)
    for i in range(n):
        for j in range(n):
            for q in range(n):
                c3[i] += W[j, i] * W[i, q] * W[j, q]
                if j != q:
                    c2[i] += abs(W[j, i] * W[i, q])
    return coef(c3, c2)


def vec_check(t, fname, case, f, X, expect, clause='per_node_value', unit_range=True, args=()):
    st, out = guarded(f, X.copy(), *args)
    t.c['evaluations'] += 1
    if st != 'ok':
        t.viol(fname, 'raises', case, observed=out)
        return
    outs = out if isinstance(out, tuple) else (out,)
    exps = expect if isinstance(expect, tuple) else (expect,)
    for k, (o, e) in enumerate(zip(outs, exps)):
        o = np.asarray(o, dtype=float)
        if o.shape != e.shape or not orc.close(o, e):
            t.viol(fname, clause, case, observed=o, expected=e, tags={'output': k})
            continue
        if np.any((e == 0) & (o != 0)):
            t.viol(fname, 'exact_zero_without_triangle', case, observed=o, expected=e, tags={'output': k})
        if unit_range and (np.any(o < 0) or np.any(o > 1 + 1e-12)):
            t.viol(fname, 'range_0_1', case, observed=o, tags={'output': k})


def scalar_check(t, fname, case, f, X, num, den):
    if np.sum(den) == 0:
        t.c['transitivity_undefined_skipped'] += 1
        return
    st, out = guarded(f, X.copy())
    t.c['evaluations'] += 1
    exp = np.sum(num) / np.sum(den)
    if st != 'ok':
        t.viol(fname, 'raises', case, observed=out)
    elif not orc.close(out, exp):
        t.viol(fname, 'value', case, observed=out, expected=exp,
               tags={'returned_zero': bool(out == 0), 'some_node_without_triangle': bool(np.any(num == 0))})
    elif out < 0 or out > 1 + 1e-12:
        t.viol(fname, 'range_0_1', case, observed=out)


def check_case(t, name, X, case, override=None):
    if override is not None:
        kind, binary = override
    else:
        kind, n, alpha, _ = FAMILIES[name]
        binary = alpha == BIN
    if kind == 'u':
        num, den = ref_undirected(X)
        C = coef(num, den)
        if binary:
            vec_check(t, 'clustering_coef_bu', case, bct.clustering_coef_bu, X, C)
            scalar_check(t, 'transitivity_bu', case, bct.transitivity_bu, X, num, den)
        vec_check(t, 'clustering_coef_wu', case, bct.clustering_coef_wu, X, C)
        scalar_check(t, 'transitivity_wu', case, bct.transitivity_wu, X, num, den)
        # the directed routines must agree on symmetric input as well (checked under C10); here by definition:
        numd, dend = ref_directed(X)
        vec_check(t, 'clustering_coef_wd', case, bct.clustering_coef_wd, X, coef(numd, dend))
        scalar_check(t, 'transitivity_wd', case, bct.transitivity_wd, X, numd, dend)
        return bool(np.any(num != 0) and np.any(num == 0))
    if kind == 'd':
        num, den = ref_directed(X)
        C = coef(num, den)
        if binary:
            vec_check(t, 'clustering_coef_bd', case, bct.clustering_coef_bd, X, C)
            scalar_check(t, 'transitivity_bd', case, bct.transitivity_bd, X, num, den)
        vec_check(t, 'clustering_coef_wd', case, bct.clustering_coef_wd, X, C)
        scalar_check(t, 'transitivity_wd', case, bct.transitivity_wd, X, num, den)
        return bool(np.any(num != 0) and np.any(num == 0))
    # signed undirected
    P = X * (X > 0)
    N = -X * (X < 0)
    np_, dp = ref_undirected(P)
    nn, dn = ref_undirected(N)
    vec_check(t, 'clustering_coef_wu_sign', dict(case, coef_type='default'), bct.clustering_coef_wu_sign, X,
              (coef(np_, dp), coef(nn, dn)), args=('default',))
    vec_check(t, 'clustering_coef_wu_sign', dict(case, coef_type='zhang'), bct.clustering_coef_wu_sign, X,
              (ref_zhang(P), ref_zhang(N)), args=('zhang',))
    vec_check(t, 'clustering_coef_wu_sign', dict(case, coef_type='costantini'), bct.clustering_coef_wu_sign, X,
              ref_costantini(X), args=('costantini',), unit_range=False)
    # every accepted spelling of the option (the source also accepts the capitalised names)
    vec_check(t, 'clustering_coef_wu_sign', dict(case, coef_type='Zhang'), bct.clustering_coef_wu_sign, X,
              (ref_zhang(P), ref_zhang(N)), args=('Zhang',))
    vec_check(t, 'clustering_coef_wu_sign', dict(case, coef_type='Costantini'), bct.clustering_coef_wu_sign, X,
              ref_costantini(X), args=('Costantini',), unit_range=False)
    return bool((np.any(np_ != 0) or np.any(nn != 0)) and (np.any(np_ == 0) or np.any(nn == 0)))


def dense_graphs():
    """dense 0/1 graphs of 40-120 nodes: thousands of triangles per node (beyond the exact range of a narrow float)"""
    out = []
    for n, k in ((42, 41), (90, 30), (120, 50)):
        A = np.zeros((n, n))
        for i in range(n):
            for d in range(1, k // 2 + 1):
                A[i, (i + d) % n] = A[(i + d) % n, i] = 1.0
        out.append(('ring%d_%d' % (n, k), A))
        D = np.triu(A)
        D[0, n - 1] = 0
        out.append(('ring%d_%d_dir' % (n, k), D + np.tril(A, -1) * (np.add.outer(np.arange(n), np.arange(n)) % 3 == 0)))
    return out


def work_dense(idx):
    t = Tally(PROPERTY)
    label, A = dense_graphs()[idx]
    directed = label.endswith('_dir')
    for name, f, pred in ETYPE_FUNCS:
        if pred is not None and not pred(A, directed):
            continue
        if 'sign' in name and len(A) > 42:
            continue        # O(n^3) pure-Python loops
        k = dtypes.check(t, name.split('[')[0], f, A, {'family': 'dense', 'index': idx, 'graph': label, 'call': name, 'A': 'dense[%d]' % idx})
        t.c['evaluations'] += k
    t.c['nontrivial'] += 1
    return t


def work(unit):
    if unit[0] == 'dense':
        return work_dense(unit[1])
    if unit[0] == 'etype':
        return dtypes.work_unit(PROPERTY, ETYPE_FUNCS, unit)
    name, a, b = unit
    t = Tally(PROPERTY)
    if name == 'named':
        cases = named_cases()
        for idx in range(a, b):
            kind, binary, label, X = cases[idx]
            case = {'family': 'named', 'index': idx, 'graph': label, 'X': X, 'kind': kind, 'binary': binary}
            if check_case(t, name, X, case, override=(kind, binary)):
                t.c['nontrivial'] += 1
        return t
    kind, n, alpha, _ = FAMILIES[name]
    for idx in range(a, b):
        X = ss.dir_graph(n, alpha, idx) if kind == 'd' else ss.und_graph(n, alpha, idx)
        case = {'family': name, 'index': idx, 'X': X}
        if check_case(t, name, X, case):
            t.c['nontrivial'] += 1
            if idx % 89 == 5:
                t.sample(case, order=-n * 10 ** 7 + idx)
    return t


def replay(rec):
    if rec['case'].get('family') == 'dense':
        return work_dense(rec['case']['index'])
    if rec['case'].get('family') == 'element_types':
        return dtypes.replay(PROPERTY, ETYPE_FUNCS, rec['case'])
    t = Tally(PROPERTY)
    c = rec['case']
    check_case(t, c['family'], np.array(c['X'], dtype=float), {k: c[k] for k in ('family', 'index', 'X')},
               override=(c['kind'], c['binary']) if c['family'] == 'named' else None)
    return t
