"""C16 - connected components are exactly the classes of mutually reachable nodes.

Engine B: every labelled undirected graph up to n nodes (each also weighted and
with a non-zero diagonal), every asymmetric 0/1 matrix on 3 nodes; BFS oracle.
"""
import numpy as np

import bct
from bctmc import smallscope as ss
from bctmc import named
from bctmc import trees
from bctmc.runner import guarded
from bctmc.tally import Tally
from bctmc import dtypes

PROPERTY = 'C16'
RULE = ('eight structured graphs on 144-300 nodes (incl. K260, star300, path300) (necklace of 64 diamonds = 2^64 geodesics, path200, cycle151, 12x12 grid, necklace31); element types: every routine also on int64 / int32 / uint8 / bool copies of all 4-node graphs over {0,1,2} and 5-node binary graphs (same values as for float64; integers must not raise, a boolean matrix may be rejected with TypeError); the structured 7-10 node family of bctmc/named.py and all labelled undirected graphs with n<=6 (quick) / n<=7 (thorough) nodes, each in three '
        'variants (binary, weights {1,2}, non-zero diagonal), every free tree on 8-10 nodes (23 + 47 + 106 shapes) under a fixed family of node orders (BFS / reverse BFS / DFS pre- and post-order from every root, leaf peeling, by degree; 9 765 labelled trees) and, for 9 and 10 nodes, under EVERY numbering that puts all leaves before all internal nodes (thorough: also all internal nodes first), ALL labelled trees on 7 and 8 nodes and the forests obtained by cutting one edge (thorough: ALL 4 782 969 + 100 000 000 labelled trees on 9 and 10 nodes), plus every asymmetric 0/1 matrix on '
        '3 nodes (with and without diagonal) and every 3-4 node symmetric graph perturbed in one cell by 1e-9 / 1e-12; a case is non-trivial when some component has >=3 '
        'nodes (several partial sets must be merged) or the input must be rejected')
ASSUMPTIONS = ['float64 inputs', 'reference: BFS over the symmetric support (bctmc.smallscope.bfs_components)']


ETYPE_FUNCS = [('get_components', bct.get_components, lambda A, d: not d),
               ('number_of_components', bct.number_of_components, lambda A, d: not d)]


def plan(ctx):
    units = []
    nmax = 7 if ctx.thorough else 6
    for n in range(1, nmax + 1):
        tot = ss.und_count(n, (0, 1))
        for (a, b) in ss.ranges(tot, (256 if n >= 7 else 64) if n >= 5 else 4):
            units.append(('und', n, a, b))
    for (a, b) in ss.ranges(len(named.family('bin_und')), 8):
        units.append(('named', 0, a, b))
    for k in range(len(named.family('xlarge_und'))):
        units.append(('named_large', 0, k, k + 1))
    # trees beyond the all-graphs scope: every free tree on 8-10 nodes under a fixed family of node orders, and ALL
    # labelled trees (Pruefer enumeration) on 7-8 nodes (thorough: 9 and 10 nodes, 4 782 969 + 100 000 000 trees)
    for n in (8, 9, 10):
        for (a, b) in ss.ranges(len(trees.shape_family(n)), 16):
            units.append(('shapes', n, a, b))
    # ... and under EVERY numbering in which all leaves come before all internal nodes (index-order scans then meet each
    # hub after its neighbourhood was seen in pieces); thorough: also every numbering with the internal nodes first
    for n in (9, 10):
        for si in range(len(trees.shapes(n))):
            units.append(('leaves_first', n, si, si + 1))
            if ctx.thorough:
                units.append(('leaves_last', n, si, si + 1))
    for n in ((7, 8, 9, 10) if ctx.thorough else (7, 8)):
        tot = trees.tree_count(n)
        for (a, b) in ss.ranges(tot, max(16, tot // 250000)):
            units.append(('trees', n, a, b))
    for (a, b) in ss.ranges(ss.dir_count(3, (0, 1)), 4):
        units.append(('asym', 3, a, b))
    for n in (3, 4):
        for (a, b) in ss.ranges(ss.und_count(n, (0, 1)), 4):
            units.append(('nearsym', n, a, b))
    units += dtypes.units([(False, 4, (0, 1, 2)), (False, 5, (0, 1))])
    return units


def variants(A):
    n = len(A)
    yield 'binary', A
    Wt = A * (1.0 + (np.add.outer(np.arange(n), np.arange(n)) % 2))
    yield 'weighted', Wt
    Dg = A.copy()
    np.fill_diagonal(Dg, [(k % 2) * 3.0 + 1.0 if k % 3 else 0.0 for k in range(n)])
    yield 'diag', Dg
    Df = A.copy()
    np.fill_diagonal(Df, 1.0)
    yield 'fulldiag', Df


def check_und(t, A, name, case):
    n = len(A)
    ref = ss.bfs_components(A - np.diag(np.diag(A)))
    m_ref = len(set(ref))
    same_ref = np.equal.outer(ref, ref)
    arg = A.copy()
    st, out = guarded(bct.get_components, arg)
    if st != 'ok':
        t.viol('get_components', 'raises', case, observed=out)
        return
    comps, sizes = out
    comps = np.asarray(comps)
    sizes = np.asarray(sizes)
    if comps.shape != (n,):
        t.viol('get_components', 'shape', case, observed=comps, expected=n)
        return
    if sorted(set(comps.tolist())) != list(range(1, m_ref + 1)):
        t.viol('get_components', 'labels_1_to_m', case, observed=comps, expected=m_ref)
    if not np.array_equal(np.equal.outer(comps, comps), same_ref):
        t.viol('get_components', 'grouping', case, observed=comps, expected=ref)
    exp_sizes = [int(np.sum(comps == c)) for c in range(1, int(comps.max()) + 1)] if n else []
    if sizes.tolist() != exp_sizes:
        t.viol('get_components', 'sizes', case, observed=sizes, expected=exp_sizes)
    st, k = guarded(bct.number_of_components, A.copy())
    if st != 'ok' or k != m_ref:
        t.viol('number_of_components', 'count', case, observed=k, expected=m_ref)
    st, out2 = guarded(bct.get_components, A.copy(), no_depend=True)
    if st != 'ok' or not (np.array_equal(np.asarray(out2[0]), comps) and np.array_equal(np.asarray(out2[1]), sizes)):
        t.viol('get_components', 'no_depend_flag_changes_nothing', case, observed=out2, expected=[comps, sizes])
    if name in ('binary', 'weighted'):
        off = ~np.eye(n, dtype=bool)
        for fname, f in (('distance_bin', lambda X: bct.distance_bin(X)),
                         ('breadthdist', lambda X: bct.breadthdist(X)[1]),
                         ('reachdist', lambda X: bct.reachdist(X)[1])) + \
                ((('reachdist', lambda X: bct.reachdist(X, ensure_binary=False)[1]),) if name == 'binary' else ()):
            st, D = guarded(f, A.copy())
            if st != 'ok':
                t.viol(fname, 'raises', case, observed=D)
                continue
            fin = np.isfinite(np.asarray(D, dtype=float))
            if not np.array_equal(fin[off], same_ref[off]):
                t.viol(fname, 'agrees_with_components', case, observed=fin, expected=same_ref)


def check_tree(t, A, case, with_count):
    """a tree is one component: the answer is known without an oracle run."""
    n = len(A)
    st, out = guarded(bct.get_components, A.copy())
    if st != 'ok':
        t.viol('get_components', 'raises', case(), observed=out)
        return
    comps, sizes = np.asarray(out[0]), np.asarray(out[1])
    if comps.shape != (n,) or np.any(comps != 1):
        t.viol('get_components', 'grouping', case(), observed=comps, expected=[1] * n)
    if sizes.tolist() != [n]:
        t.viol('get_components', 'sizes', case(), observed=sizes, expected=[n])
    if with_count:
        st, k = guarded(bct.number_of_components, A.copy())
        if st != 'ok' or k != 1:
            t.viol('number_of_components', 'count', case(), observed=k, expected=1)


def work_trees(unit):
    kind, n, a, b = unit
    t = Tally(PROPERTY)
    for idx in range(a, b):
        edges = trees.labelled_tree_edges(n, idx)
        A = trees.matrix(n, edges)
        t.c['evaluations'] += 1
        t.c['nontrivial'] += 1
        t.c['labelled_trees_%d' % n] += 1
        check_tree(t, A, lambda: {'family': 'und', 'n': n, 'index': idx, 'variant': 'binary', 'graph': 'labelled tree', 'A': A},
                   with_count=n <= 8)
        if n <= 8:
            # the forests obtained by cutting one edge (two components), full check against the BFS oracle
            for k in range(len(edges)):
                F = trees.matrix(n, edges[:k] + edges[k + 1:])
                t.c['evaluations'] += 1
                t.c['nontrivial'] += 1
                light_forest(t, F, {'family': 'und', 'n': n, 'index': idx, 'variant': 'binary', 'graph': 'tree minus edge %d' % k, 'A': F})
    if a == 0:
        t.sample({'family': 'labelled trees', 'n': n, 'count': trees.tree_count(n)})
    return t


def work_leaf_orders(unit):
    import itertools
    kind, n, a, b = unit
    t = Tally(PROPERTY)
    for si in range(a, b):
        adj = trees.shapes(n)[si]
        edges = [(v, w) for v in range(n) for w in adj[v] if v < w]
        leaves = [v for v in range(n) if len(adj[v]) == 1]
        inner = [v for v in range(n) if len(adj[v]) > 1]
        first, second = (leaves, inner) if kind == 'leaves_first' else (inner, leaves)
        for p1 in itertools.permutations(range(len(first))):
            for p2 in itertools.permutations(range(len(first), n)):
                pos = dict(zip(first, p1))
                pos.update(zip(second, p2))
                A = np.zeros((n, n))
                for v, w in edges:
                    A[pos[v], pos[w]] = A[pos[w], pos[v]] = 1.0
                t.c['evaluations'] += 1
                t.c['nontrivial'] += 1
                t.c[kind + '_numberings'] += 1
                check_tree(t, A, lambda: {'family': 'und', 'n': n, 'index': si, 'variant': 'binary',
                                          'graph': 'free tree %d of %d nodes, %s' % (si, n, kind), 'A': A}, with_count=False)
    return t


def unit_cost(unit):
    if unit[0] in ('leaves_first', 'leaves_last'):
        import math
        adj = trees.shapes(unit[1])[unit[2]]
        L = sum(1 for a in adj if len(a) == 1)
        return math.factorial(L) * math.factorial(unit[1] - L)
    return 0


def light_forest(t, A, case):
    n = len(A)
    ref = ss.bfs_components(A)
    st, out = guarded(bct.get_components, A.copy())
    if st != 'ok':
        t.viol('get_components', 'raises', case, observed=out)
        return
    comps, sizes = np.asarray(out[0]), np.asarray(out[1])
    if comps.shape != (n,) or not np.array_equal(np.equal.outer(comps, comps), np.equal.outer(ref, ref)):
        t.viol('get_components', 'grouping', case, observed=comps, expected=ref)
        return
    if sorted(set(comps.tolist())) != list(range(1, len(set(ref)) + 1)):
        t.viol('get_components', 'labels_1_to_m', case, observed=comps, expected=len(set(ref)))
    if sizes.tolist() != [int(np.sum(comps == c)) for c in range(1, int(comps.max()) + 1)]:
        t.viol('get_components', 'sizes', case, observed=sizes)


def work(unit):
    if unit[0] == 'etype':
        return dtypes.work_unit(PROPERTY, ETYPE_FUNCS, unit)
    kind, n, a, b = unit
    if kind == 'trees':
        return work_trees(unit)
    if kind in ('leaves_first', 'leaves_last'):
        return work_leaf_orders(unit)
    t = Tally(PROPERTY)
    for idx in range(a, b):
        if kind == 'shapes':
            label, A = trees.shape_family(n)[idx]
            for name, V in variants(A):
                case = {'family': 'und', 'n': n, 'index': idx, 'graph': label, 'variant': name, 'A': V}
                t.c['evaluations'] += 1
                t.c['nontrivial'] += 1
                check_und(t, V, name, case)
        elif kind == 'named_large':
            label, A = named.family('xlarge_und')[idx]
            case = {'family': 'und', 'n': len(A), 'index': idx, 'graph': label, 'variant': 'binary', 'A': 'named:xlarge_und[%d]' % idx}
            t.c['evaluations'] += 1
            t.c['nontrivial'] += 1
            check_und(t, A, 'binary', case)
        elif kind == 'named':
            label, A = named.family('bin_und')[idx]
            for name, V in variants(A):
                case = {'family': 'und', 'n': len(A), 'index': idx, 'graph': label, 'variant': name, 'A': V}
                t.c['evaluations'] += 1
                t.c['nontrivial'] += 1
                check_und(t, V, name, case)
        elif kind == 'und':
            A = ss.und_graph(n, (0, 1), idx)
            ref = ss.bfs_components(A)
            nontriv = max(np.bincount(ref)) >= 3
            for name, V in variants(A):
                case = {'family': 'und', 'n': n, 'index': idx, 'variant': name, 'A': V}
                t.c['evaluations'] += 1
                if nontriv:
                    t.c['nontrivial'] += 1
                check_und(t, V, name, case)
                if nontriv and name == "weighted" and idx % 97 == 5:
                    t.sample(case, order=-n * 10 ** 7 + idx)
        elif kind == 'nearsym':
            # symmetric graph made asymmetric by an amount below any common tolerance: still asymmetric input
            S0 = ss.und_graph(n, (0, 1), idx)
            for (i, j) in [(i, j) for i in range(n) for j in range(n) if i != j]:
                for eps in (1e-9, 1e-12):
                    V = S0 * 0.5
                    V[i, j] += eps
                    case = {'family': 'nearsym', 'n': n, 'index': idx, 'variant': 'eps%g@%d,%d' % (eps, i, j), 'A': V}
                    t.c['evaluations'] += 1
                    t.c['nontrivial'] += 1
                    t.c['rejections_expected'] += 1
                    for fname in ('get_components', 'number_of_components'):
                        st, out = guarded(getattr(bct, fname), V.copy())
                        if not (st == 'exc' and isinstance(out, bct.BCTParamError)):
                            t.viol(fname, 'rejects_asymmetric', case, observed=out, expected='BCTParamError',
                                   tags={'asymmetry': eps})
        else:
            A = ss.dir_graph(n, (0, 1), idx)
            if np.array_equal(A, A.T):
                continue
            for name, V in variants(A):
                if name == 'weighted':
                    continue
                case = {'family': 'asym', 'n': n, 'index': idx, 'variant': name, 'A': V}
                t.c['evaluations'] += 1
                t.c['nontrivial'] += 1
                t.c['rejections_expected'] += 1
                for fname in ('get_components', 'number_of_components'):
                    st, out = guarded(getattr(bct, fname), V.copy())
                    if not (st == 'exc' and isinstance(out, bct.BCTParamError)):
                        t.viol(fname, 'rejects_asymmetric', case, observed=out,
                               expected='BCTParamError')
    return t


def replay(rec):
    if rec['case'].get('family') == 'element_types':
        return dtypes.replay(PROPERTY, ETYPE_FUNCS, rec['case'])
    t = Tally(PROPERTY)
    case = rec['case']
    if isinstance(case['A'], str):
        A = named.family('xlarge_und')[case['index']][1]
    else:
        A = np.array(case['A'], dtype=float)
    if case['family'] == 'und':
        check_und(t, A, case['variant'], case)
    else:
        for fname in ('get_components', 'number_of_components'):
            st, out = guarded(getattr(bct, fname), A.copy())
            if not (st == 'exc' and isinstance(out, bct.BCTParamError)):
                t.viol(fname, 'rejects_asymmetric', case, observed=out, expected='BCTParamError')
    return t
